import FsutilModel.Path
namespace Fsm

theorem cmp_common_prefix (x p q : Path) : comparePath (x ++ p) (x ++ q) = comparePath p q := by
  induction x with
  | nil => rfl
  | cons a x ih => simp [comparePath, ih]

def SepOrEnd (r : Path) : Prop := r = [] ∨ ∃ t, r = sep :: t

/-- different sep-free components decide the comparison, whatever follows -/
theorem cmp_diff_comps (c d r1 r2 : Path) (hc : sep ∉ c) (hd : sep ∉ d) (hne : c ≠ d)
    (h1 : SepOrEnd r1) (h2 : SepOrEnd r2) :
    comparePath (c ++ r1) (d ++ r2) < 0 ↔ strLt c d = true := by
  induction c generalizing d with
  | nil =>
    cases d with
    | nil => exact absurd rfl hne
    | cons b d =>
      have hb : b ≠ sep := by intro e; apply hd; simp [e]
      rcases h1 with h1 | ⟨t, h1⟩
      · subst h1; simp [comparePath, strLt]; omega
      · subst h1
        have : sep ≠ b := fun e => hb e.symm
        simp [comparePath, strLt, this]
  | cons a c ih =>
    have ha : a ≠ sep := by intro e; apply hc; simp [e]
    have hc' : sep ∉ c := by intro e; apply hc; simp [e]
    cases d with
    | nil =>
      rcases h2 with h2 | ⟨t, h2⟩
      · subst h2; simp [comparePath, strLt]; omega
      · subst h2; simp [comparePath, strLt, ha]
    | cons b d =>
      have hb : b ≠ sep := by intro e; apply hd; simp [e]
      have hd' : sep ∉ d := by intro e; apply hd; simp [e]
      by_cases hab : a = b
      · subst hab
        have hne' : c ≠ d := by intro e; apply hne; simp [e]
        simp [comparePath, strLt, ih d hc' hd' hne']
      · simp only [List.cons_append, comparePath, strLt, hab, if_false]
        by_cases hlt : a < b
        · simp [hlt, hb]
        · simp [hlt, ha]

theorem joinSep_cons (c : Path) (cs : List Path) :
    ∃ r, joinSep (c :: cs) = c ++ r ∧ SepOrEnd r ∧
      (cs = [] → r = []) ∧ (cs ≠ [] → r = sep :: joinSep cs) := by
  cases cs with
  | nil => exact ⟨[], by simp [joinSep], Or.inl rfl, by simp, by simp⟩
  | cons d ds => exact ⟨sep :: joinSep (d :: ds), by simp [joinSep], Or.inr ⟨_, rfl⟩, by simp, by simp⟩

def AllSepFree (cs : List Path) : Prop := ∀ c ∈ cs, sep ∉ c

/-- comparePath on joined plain paths is the lexicographic order on components -/
theorem cmp_joinSep (a b : List Path) (ha : AllSepFree a) (hb : AllSepFree b)
    (hna : a ≠ []) (hnb : b ≠ []) :
    comparePath (joinSep a) (joinSep b) < 0 ↔ compsLt a b = true := by
  induction a generalizing b with
  | nil => exact absurd rfl hna
  | cons c cs ih =>
    cases b with
    | nil => exact absurd rfl hnb
    | cons d ds =>
      have hc : sep ∉ c := ha c (by simp)
      have hd : sep ∉ d := hb d (by simp)
      have hcs : AllSepFree cs := fun x hx => ha x (by simp [hx])
      have hds : AllSepFree ds := fun x hx => hb x (by simp [hx])
      obtain ⟨r1, e1, s1, n1, m1⟩ := joinSep_cons c cs
      obtain ⟨r2, e2, s2, n2, m2⟩ := joinSep_cons d ds
      rw [e1, e2]
      by_cases hcd : c = d
      · subst hcd
        rw [cmp_common_prefix]
        simp only [compsLt, if_true]
        cases cs with
        | nil =>
          rw [n1 rfl]
          cases ds with
          | nil => rw [n2 rfl]; simp [comparePath, compsLt]
          | cons e es => rw [m2 (by simp)]; simp [comparePath, compsLt]
        | cons e es =>
          rw [m1 (by simp)]
          cases ds with
          | nil => rw [n2 rfl]; simp [comparePath, compsLt]; omega
          | cons f fs =>
            rw [m2 (by simp)]
            simp only [comparePath, if_true]
            exact ih (f :: fs) hcs hds (by simp) (by simp)
      · simp only [compsLt, hcd, if_false]
        exact cmp_diff_comps c d r1 r2 hc hd hcd s1 s2

end Fsm
