import FsutilModel.Lex
namespace Fsm

/-! Component-level validator (spike): paths are lists of plain components. -/

structure Frame where
  dir : List Path
  last : Path
deriving DecidableEq

structure Ent where
  path : List Path
  isDir : Bool

def compsLeB (a b : List Path) : Bool := decide (a = b) || compsLt a b

/-- stack is stored top-first; pop frames until one with dir ≤ d -/
def popTo (d : List Path) : List Frame → List Frame
  | [] => []
  | f :: fs => if compsLeB f.dir d then f :: fs else popTo d fs

def step (st : List Frame) (e : Ent) : Option (List Frame) :=
  let d := e.path.dropLast
  let b := e.path.getLast?.getD []
  match popTo d st with
  | [] => none
  | f :: fs =>
    if f.dir = d ∧ strLt f.last b = true then
      let st' := { f with last := b } :: fs
      some (if e.isDir then ⟨e.path, []⟩ :: st' else st')
    else none

def specStep (pre : List Ent) (x : Ent) : Prop :=
  (∀ l, pre.getLast? = some l → compsLt l.path x.path = true) ∧
  (x.path.dropLast = [] ∨ ∃ y ∈ pre, y.isDir = true ∧ y.path = x.path.dropLast)

/-- chain shape of a top-first stack -/
inductive Chain : List Frame → Prop
  | root (l : Path) : Chain [⟨[], l⟩]
  | push (f g : Frame) (rest : List Frame) :
      f.dir = g.dir ++ [g.last] → g.last ≠ [] → Chain (g :: rest) → Chain (f :: g :: rest)

theorem Chain.ne_nil {st} (h : Chain st) : st ≠ [] := by cases h <;> simp

/-- every frame's dir is a prefix of the top frame's dir -/
theorem Chain.dir_prefix_top {f : Frame} {rest} (h : Chain (f :: rest)) :
    ∀ g ∈ f :: rest, g.dir <+: f.dir := by
  generalize hst : f :: rest = st at h
  induction h generalizing f rest with
  | root l => intro g hg; simp at hst; simp at hg; subst hg; obtain ⟨h1, _⟩ := hst; subst h1; exact List.prefix_refl _
  | push f' g' rest' hdir hne hc ih =>
    simp at hst; obtain ⟨h1, h2⟩ := hst; subst h1
    intro g hg
    simp at hg
    rcases hg with hg | hg
    · subst hg; exact List.prefix_refl _
    · have := ih (f := g') (rest := rest') rfl g (by simpa using hg)
      rw [hdir]
      exact this.trans (List.prefix_append _ _)

/-- every prefix of the top dir is the dir of some frame -/
theorem Chain.prefix_is_frame {f : Frame} {rest} (h : Chain (f :: rest)) :
    ∀ q, q <+: f.dir → ∃ g ∈ f :: rest, g.dir = q := by
  generalize hst : f :: rest = st at h
  induction h generalizing f rest with
  | root l =>
    simp at hst; obtain ⟨h1, h2⟩ := hst; subst h1; subst h2
    intro q hq; simp at hq; subst hq; exact ⟨⟨[], l⟩, by simp, rfl⟩
  | push f' g' rest' hdir hne hc ih =>
    simp at hst; obtain ⟨h1, h2⟩ := hst; subst h1; subst h2
    intro q hq
    rw [hdir] at hq
    rcases List.prefix_concat_iff.mp hq with hq | hq
    · exact ⟨f, by simp, by rw [hdir, hq]⟩
    · obtain ⟨g, hg, hgd⟩ := ih (f := g') (rest := rest') rfl q hq
      exact ⟨g, List.mem_cons_of_mem _ hg, hgd⟩


theorem compsLeB_nil (d : List Path) : compsLeB [] d = true := by
  cases d <;> simp [compsLeB, compsLt]

theorem not_le_of_proper_prefix (d : List Path) (x : Path) (t : List Path) :
    compsLeB (d ++ x :: t) d = false := by
  have h := compsLt_prefix d x t
  have h2 := compsLt_asymm h
  have h3 : d ++ x :: t ≠ d := by
    intro e
    have : (d ++ x :: t).length = d.length := by rw [e]
    simp at this
  simp [compsLeB, h2, h3]

/-- frames below the top have a dir that is a proper prefix of the top dir -/
theorem Chain.proper_prefix {f : Frame} {rest} (h : Chain (f :: rest)) :
    ∀ g ∈ rest, ∃ x t, f.dir = g.dir ++ x :: t := by
  cases h with
  | root l => intro g hg; simp at hg
  | push _ g' rest' hdir hne hc =>
    intro g hg
    have hp := hc.dir_prefix_top g hg
    obtain ⟨u, hu⟩ := hp
    refine ⟨(u ++ [g'.last]).head?.getD [], (u ++ [g'.last]).tail, ?_⟩
    rw [hdir, ← hu, List.append_assoc]
    congr 1
    cases u <;> simp

theorem Chain.tail {f : Frame} {rest} (h : Chain (f :: rest)) (hr : rest ≠ []) : Chain rest := by
  cases h with
  | root l => exact absurd rfl hr
  | push _ g' rest' hdir hne hc => exact hc

theorem popTo_ne_nil {st} (h : Chain st) (d : List Path) : popTo d st ≠ [] := by
  induction h with
  | root l => simp [popTo, compsLeB_nil]
  | push f g rest hdir hne hc ih =>
    simp only [popTo]
    split
    · simp
    · exact ih

/-- popTo finds the frame whose dir is exactly d, if there is one -/
theorem popTo_finds {st} (h : Chain st) (d : List Path) (g : Frame) (hg : g ∈ st) (hd : g.dir = d) :
    ∃ fs, popTo d st = g :: fs ∧ Chain (g :: fs) := by
  induction h with
  | root l =>
    simp at hg; subst hg
    exact ⟨[], by simp [popTo, compsLeB, ← hd], Chain.root _⟩
  | push f g' rest hdir hne hc ih =>
    simp at hg
    rcases hg with hg | hg
    · subst hg
      exact ⟨g' :: rest, by simp [popTo, compsLeB, hd], Chain.push _ _ _ hdir hne hc⟩
    · have hpp := (Chain.push f g' rest hdir hne hc).proper_prefix g (by simpa using hg)
      obtain ⟨x, t, hx⟩ := hpp
      have : compsLeB f.dir d = false := by rw [hx, hd]; exact not_le_of_proper_prefix d x t
      simp only [popTo, this]
      exact ih (by simpa using hg)

theorem popTo_suffix {st} (d : List Path) : ∀ f fs, popTo d st = f :: fs → f ∈ st ∧ (∀ x ∈ fs, x ∈ st) := by
  induction st with
  | nil => intro f fs h; simp [popTo] at h
  | cons a st ih =>
    intro f fs h
    simp only [popTo] at h
    split at h
    · simp at h; obtain ⟨h1, h2⟩ := h; subst h1; subst h2
      exact ⟨by simp, fun x hx => by simp [hx]⟩
    · obtain ⟨h1, h2⟩ := ih f fs h
      exact ⟨by simp [h1], fun x hx => by simp [h2 x hx]⟩

end Fsm
