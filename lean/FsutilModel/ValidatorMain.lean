import FsutilModel.ValidatorProof
namespace Fsm

/-- d ++ [g.last] is a prefix of the last accepted path, for the frame g found for d -/
theorem child_prefix_lp {st : List Frame} (hc : Chain st) (g : Frame) (hg : g ∈ st) (hl : g.last ≠ []) :
    (g.dir ++ [g.last]) <+: lpOf st := by
  cases st with
  | nil => simp at hg
  | cons t rest =>
    simp at hg
    rcases hg with hg | hg
    · subst hg; simp [lpOf, hl]
    · have h1 := hc.child_prefix g hg
      simp only [lpOf]
      split
      · exact h1
      · exact h1.trans (List.prefix_append _ _)



theorem Chain.nontop_last_ne {t : Frame} {rest} (h : Chain (t :: rest)) : ∀ g ∈ rest, g.last ≠ [] := by
  generalize hst : t :: rest = st at h
  induction h generalizing t rest with
  | root _ => simp at hst; obtain ⟨_, e2⟩ := hst; subst e2; intro g hg; simp at hg
  | push f2 g2 r2 _ hne2 _ ih =>
    simp at hst; obtain ⟨_, e2⟩ := hst; subst e2
    intro g hg
    simp at hg
    rcases hg with hg | hg
    · subst hg; exact hne2
    · exact ih (t := g2) (rest := r2) rfl g hg

theorem step_some_iff (st : List Frame) (x : Ent) (st' : List Frame) :
    step st x = some st' ↔
    ∃ f fs, popTo x.path.dropLast st = f :: fs ∧ f.dir = x.path.dropLast ∧
      strLt f.last (x.path.getLast?.getD []) = true ∧
      st' = (if x.isDir then ⟨x.path, []⟩ :: { f with last := x.path.getLast?.getD [] } :: fs
             else { f with last := x.path.getLast?.getD [] } :: fs) := by
  unfold step
  simp only []
  cases h : popTo x.path.dropLast st with
  | nil => simp
  | cons f fs =>
    by_cases hc : f.dir = x.path.dropLast ∧ strLt f.last (x.path.getLast?.getD []) = true
    · simp only [hc, and_self, if_true, Option.some.injEq]
      constructor
      · intro e; refine ⟨f, fs, rfl, hc.1, hc.2, ?_⟩; rw [hc.1]; exact e.symm
      · rintro ⟨f', fs', e, _, _, e'⟩
        simp at e; obtain ⟨e1, e2⟩ := e; subst e1; subst e2; rw [hc.1] at e'; exact e'.symm
    · simp only [hc, if_false]
      constructor
      · intro e; cases e
      · rintro ⟨f', fs', e, h1, h2, _⟩
        simp at e; obtain ⟨e1, e2⟩ := e; subst e1; subst e2; exact absurd ⟨h1, h2⟩ hc

theorem step_accept_spec {st pre} (hinv : Inv st pre) (x : Ent) (hx : PlainPath x.path)
    {st'} (hs : step st x = some st') : specStep pre x := by
  obtain ⟨f, fs, hpop, hfd, hlt, _⟩ := (step_some_iff st x st').mp hs
  · ·
      have hfmem := (popTo_suffix _ f fs hpop).1
      have hpath := path_split x.path hx.1
      constructor
      · intro l hl
        rw [← hinv.lp l hl, hpath, ← hfd]
        by_cases hlast : f.last = []
        · -- f.last = [] : f must be the top frame and lp = f.dir
          have : lpOf st = f.dir := by
            cases hst : st with
            | nil => rw [hst] at hfmem; simp at hfmem
            | cons t rest =>
              rw [hst] at hfmem
              simp at hfmem
              rcases hfmem with h | h
              · subst h; simp [lpOf, hlast]
              · -- a non-top frame has last ≠ []
                exfalso
                have hc := hinv.chain; rw [hst] at hc
                have := hc.nontop_last_ne
                exact this f h hlast
          rw [this]
          exact compsLt_prefix _ _ _
        · obtain ⟨u, hu⟩ := child_prefix_lp hinv.chain f hfmem hlast
          rw [← hu, List.append_assoc]
          exact compsLt_of_strLt _ _ _ _ hlt
      · by_cases hd : x.path.dropLast = []
        · left; exact hd
        · right
          have := hinv.opened f hfmem (by rw [hfd]; exact hd)
          rw [hfd] at this; exact this

end Fsm
