import FsutilModel.Walk
import FsutilModel.Model.WalkB
import FsutilModel.WalkBuild
import FsutilModel.Clean
/-! C09 completeness: every path a snapshot contains is listed by the walk of the tree built from it. -/
namespace Fsm

theorem mem_walkList_of_mem (pre : Path) : ∀ (L : List (Path × Node)) (m : Path) (ch : Node), (m, ch) ∈ L →
    joinP pre m ∈ walkList pre L ∧ ∀ y ∈ walk (joinP pre m) ch, y ∈ walkList pre L
  | [], _, _, h => by simp at h
  | (n, c) :: rest, m, ch, h => by
    simp only [List.mem_cons] at h
    rcases h with h | h
    · cases h
      refine ⟨by simp [walkList], fun y hy => ?_⟩
      simp only [walkList, List.mem_cons, List.mem_append]
      exact Or.inr (Or.inl hy)
    · obtain ⟨h1, h2⟩ := mem_walkList_of_mem pre rest m ch h
      refine ⟨?_, fun y hy => ?_⟩
      · simp only [walkList, List.mem_cons, List.mem_append]; exact Or.inr (Or.inr h1)
      · simp only [walkList, List.mem_cons, List.mem_append]; exact Or.inr (Or.inr (h2 y hy))

theorem insertSorted_has (c : Path) (f : Option Node → Node) : ∀ (L : List (Path × Node)),
    ∃ o, (c, f o) ∈ insertSorted c f L
  | [] => ⟨none, by simp [insertSorted]⟩
  | (n, x) :: rest => by
    simp only [insertSorted]
    split
    · rename_i h; subst h; exact ⟨some x, by simp⟩
    · split
      · exact ⟨none, by simp⟩
      · obtain ⟨o, ho⟩ := insertSorted_has c f rest
        exact ⟨o, by simp [ho]⟩

theorem joinP_joinP (pre c r : Path) (hc : c ≠ []) : joinP (joinP pre c) r = joinP pre (c ++ sep :: r) := by
  unfold joinP
  by_cases hp : pre = []
  · simp [hp, hc]
  · simp [hp]

theorem joinSep_cons2 (c d : Path) (ds : List Path) : joinSep (c :: d :: ds) = c ++ sep :: joinSep (d :: ds) := rfl

/-- the inserted path is listed -/
theorem insertPath_lists : ∀ (cs : List Path), cs ≠ [] → (∀ c ∈ cs, NameOK c) → ∀ (n : Node) (pre : Path),
    joinP pre (joinSep cs) ∈ walk pre (insertPath cs n)
  | [], h, _, _, _ => absurd rfl h
  | [c], _, _, n, pre => by
    simp only [insertPath, walk, joinSep]
    obtain ⟨o, ho⟩ := insertSorted_has c (fun o => insertPath [] (o.getD (.dir []))) (childrenOf n)
    exact (mem_walkList_of_mem pre _ c _ ho).1
  | c :: d :: ds, _, hok, n, pre => by
    simp only [insertPath, walk]
    obtain ⟨o, ho⟩ := insertSorted_has c (fun o => insertPath (d :: ds) (o.getD (.dir []))) (childrenOf n)
    have hc : c ≠ [] := (hok c (by simp)).1
    have ih := insertPath_lists (d :: ds) (by simp) (fun x hx => hok x (by simp [hx])) (o.getD (.dir [])) (joinP pre c)
    rw [joinP_joinP pre c _ hc, ← joinSep_cons2] at ih
    exact (mem_walkList_of_mem pre _ c _ ho).2 _ ih

/-- what was listed stays listed -/
theorem insertPath_keeps : ∀ (cs : List Path) (n : Node) (pre x : Path), x ∈ walk pre n → x ∈ walk pre (insertPath cs n)
  | [], _, _, _, h => by simpa [insertPath] using h
  | c :: rest, .file, _, _, h => by simp [walk] at h
  | c :: rest, .dir L, pre, x, h => by
    simp only [insertPath, walk, childrenOf] at h ⊢
    induction L with
    | nil => simp [walkList] at h
    | cons hd L' ihL =>
      obtain ⟨m, ch⟩ := hd
      simp only [walkList, List.mem_cons, List.mem_append] at h
      simp only [insertSorted]
      split
      · rename_i hmc
        simp only [walkList, List.mem_cons, List.mem_append, Option.getD_some]
        rcases h with h | h | h
        · exact Or.inl h
        · exact Or.inr (Or.inl (insertPath_keeps rest ch _ x h))
        · exact Or.inr (Or.inr h)
      · split
        · simp only [walkList, List.mem_cons, List.mem_append]
          exact Or.inr (Or.inr h)
        · simp only [walkList, List.mem_cons, List.mem_append]
          rcases h with h | h | h
          · exact Or.inl h
          · exact Or.inr (Or.inl h)
          · exact Or.inr (Or.inr (ihL h))

theorem buildFold_lists (x : Path) : ∀ (paths : List Path) (t : Node), (∀ p ∈ paths, ∀ c ∈ comps p, NameOK c) →
    (x ∈ walk [] t ∨ x ∈ paths) → x ∈ walk [] (paths.foldl (fun t p => insertPath (comps p) t) t)
  | [], t, _, h => by
    rcases h with h | h
    · simpa using h
    · simp at h
  | p :: ps, t, hok, h => by
    simp only [List.foldl_cons]
    apply buildFold_lists x ps _ (fun q hq => hok q (by simp [hq]))
    rcases h with h | h
    · exact Or.inl (insertPath_keeps _ t [] x h)
    · simp only [List.mem_cons] at h
      rcases h with h | h
      · subst h
        have := insertPath_lists (comps x) (comps_ne_nil x) (hok x (by simp)) t []
        rw [joinSep_comps] at this
        simpa [joinP] using Or.inl this
      · exact Or.inr h

/-- every path of the snapshot is listed by the walk of the tree built from it -/
theorem buildTree_lists (paths : List Path) (h : ∀ p ∈ paths, ∀ c ∈ comps p, NameOK c) (x : Path) (hx : x ∈ paths) :
    x ∈ walk [] (buildTree paths) :=
  buildFold_lists x paths (.dir []) h (Or.inr hx)

end Fsm
