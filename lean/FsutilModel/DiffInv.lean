import FsutilModel.Diff
namespace Fsm.D

variable {P : Type} [DecidableEq P] {I : Type} [DecidableEq I]

def Before (O : PathOrd P) (q : P) (ls us : List (Ent P I)) : Prop :=
  (∀ l ∈ ls, O.lt q l.path = true) ∧ (∀ u ∈ us, O.lt q u.path = true)

def Sorted (O : PathOrd P) (xs : List (Ent P I)) : Prop :=
  xs.Pairwise (fun a b => O.lt a.path b.path = true)

/-- ancestors of remaining entries are remaining directories, or already passed -/
def Closed (O : PathOrd P) (xs ls us : List (Ent P I)) : Prop :=
  ∀ x ∈ xs, ∀ p, O.under p x.path = true →
    (∃ d ∈ xs, d.path = p ∧ d.isDir = true) ∨ Before O p ls us

structure Inv (O : PathOrd P) (tU : TMap P I) (ls us : List (Ent P I)) (rm : Option P) (t : TMap P I) : Prop where
  done_ : ∀ q, Before O q ls us → t q = tU q
  pnone : ∀ q, ¬ Before O q ls us → (∀ l ∈ ls, l.path ≠ q) → t q = none
  pl : ∀ l ∈ ls, t l.path = some l ∨ (t l.path = none ∧ ∀ u ∈ us, u.path ≠ l.path)
  rmok : ∀ d, rm = some d → ∀ l ∈ ls, O.under d l.path = true → t l.path = none
  sL : Sorted O ls
  sU : Sorted O us
  tUus : ∀ u ∈ us, tU u.path = some u
  tUdom : ∀ q e, tU q = some e → (∃ u ∈ us, u.path = q) ∨ Before O q ls us
  cU : Closed O us ls us
  cL : Closed O ls ls us

theorem lt_asymm (O : PathOrd P) {a b : P} (h : O.lt a b = true) : O.lt b a = false := by
  cases hb : O.lt b a with
  | false => rfl
  | true => have := O.lt_trans a b a h hb; rw [O.lt_irrefl] at this; cases this

theorem lt_ne (O : PathOrd P) {a b : P} (h : O.lt a b = true) : a ≠ b := by
  intro e; subst e; rw [O.lt_irrefl] at h; cases h

theorem Before.mono {O : PathOrd P} {q : P} {ls us ls' us' : List (Ent P I)}
    (h : Before O q ls us) (hl : ∀ x ∈ ls', x ∈ ls) (hu : ∀ x ∈ us', x ∈ us) : Before O q ls' us' :=
  ⟨fun l hl' => h.1 l (hl l hl'), fun u hu' => h.2 u (hu u hu')⟩

theorem sorted_head {O : PathOrd P} {x : Ent P I} {xs : List (Ent P I)} (h : Sorted O (x :: xs)) :
    ∀ y ∈ xs, O.lt x.path y.path = true := by
  intro y hy; exact (List.pairwise_cons.mp h).1 y hy

theorem sorted_tail {O : PathOrd P} {x : Ent P I} {xs : List (Ent P I)} (h : Sorted O (x :: xs)) : Sorted O xs :=
  (List.pairwise_cons.mp h).2

/-- nothing in tU at q if q is neither remaining nor passed -/
theorem tU_none {O : PathOrd P} {tU : TMap P I} {ls us rm t} (hi : Inv O tU ls us rm t) (q : P)
    (h1 : ∀ u ∈ us, u.path ≠ q) (h2 : ¬ Before O q ls us) : tU q = none := by
  cases h : tU q with
  | none => rfl
  | some e =>
    rcases hi.tUdom q e h with ⟨u, hu, hq⟩ | hb
    · exact absurd hq (h1 u hu)
    · exact absurd hb h2

end Fsm.D
