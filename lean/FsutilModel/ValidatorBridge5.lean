import FsutilModel.ValidatorBridge4
/-! Bridge, part 3c: the search-and-compare part of `HandleChange` simulates the component-level step. -/
namespace Fsm

theorem getD_mem {α : Type} (l : List α) (i : Nat) (d : α) (h : i < l.length) : l.getD i d ∈ l := by
  rw [List.getD_eq_getElem?_getD, List.getElem?_eq_getElem h]; simp

theorem vsearch_sim (cst : List Frame) (hchain : Chain cst) (hpl : ∀ f ∈ cst, PlainComps f.dir)
    (init : List Path) (b : Path) (hp : PlainComps (init ++ [b])) (isDel isDir : Bool) :
    vsearch (bstOf cst) (joinSep init) b isDel isDir =
      match step cst ⟨init ++ [b], !isDel && isDir⟩ with
      | some cst' => .ok (bstOf cst')
      | none => .reject := by
  have hinit : PlainComps init := fun c hc => hp c (by simp [hc])
  have hne := hchain.ne_nil
  have hn : 0 < cst.length := List.length_pos_iff.mpr hne
  -- the search predicate, index by index
  have hpred : ∀ i, i < cst.length →
      decide (comparePath (((bstOf cst).getD ((bstOf cst).length - 1 - i) ⟨[], []⟩).dir) (joinSep init) ≤ 0)
        = compsLeB ((cst.getD i ⟨[], []⟩).dir) init := by
    intro i hi
    have hfp := hpl _ (getD_mem cst i ⟨[], []⟩ hi)
    have hdirEq : ((bstOf cst).getD ((bstOf cst).length - 1 - i) ⟨[], []⟩).dir = joinSep (cst.getD i ⟨[], []⟩).dir := by
      rw [bstOf_length, bstOf_getD cst i hi]; rfl
    have hiff : comparePath (((bstOf cst).getD ((bstOf cst).length - 1 - i) ⟨[], []⟩).dir) (joinSep init) ≤ 0
        ↔ compsLeB (cst.getD i ⟨[], []⟩).dir init = true := by
      rw [hdirEq]; exact cmp_le_iff _ _ hfp hinit
    cases hc : compsLeB (cst.getD i ⟨[], []⟩).dir init with
    | true => exact decide_eq_true (hiff.mpr hc)
    | false => exact decide_eq_false (fun h => by rw [hiff.mp h] at hc; cases hc)
  have hmono : ∀ a b', a ≤ b' → b' < (bstOf cst).length →
      decide (comparePath (((bstOf cst).getD ((bstOf cst).length - 1 - a) ⟨[], []⟩).dir) (joinSep init) ≤ 0) = true →
      decide (comparePath (((bstOf cst).getD ((bstOf cst).length - 1 - b') ⟨[], []⟩).dir) (joinSep init) ≤ 0) = true := by
    intro a b' hab hb' ha
    rw [bstOf_length] at hb'
    rw [hpred a (by omega)] at ha
    rw [hpred b' hb']
    exact chain_mono init cst hchain a b' hab hb' ha
  obtain ⟨hlo, hhi, hkn⟩ := goSearch_spec _ (bstOf cst).length hmono
  generalize hk : goSearch (bstOf cst).length (fun i =>
      decide (comparePath (((bstOf cst).getD ((bstOf cst).length - 1 - i) ⟨[], []⟩).dir) (joinSep init) ≤ 0)) = k at hlo hhi hkn
  rw [bstOf_length] at hkn
  -- the root frame is ≤ everything: the search succeeds
  obtain ⟨g, hg, hgd⟩ := hchain.has_root
  obtain ⟨r, hr, hgr⟩ := List.getElem_of_mem hg
  have hrpred : compsLeB ((cst.getD r ⟨[], []⟩).dir) init = true := by
    rw [List.getD_eq_getElem?_getD, List.getElem?_eq_getElem hr]
    simp [hgr, hgd, compsLeB_nil]
  have hklt : k < cst.length := by
    by_cases hkr : r < k
    · have := hlo r hkr
      rw [hpred r hr, hrpred] at this; cases this
    · omega
  have hpop : popTo init cst = cst.drop k := by
    apply popTo_eq_drop init cst k hklt
    · intro a ha
      have := hlo a ha
      rwa [hpred a (by omega)] at this
    · have := hhi k (Nat.le_refl _) (by rw [bstOf_length]; exact hklt)
      rwa [hpred k hklt] at this
  obtain ⟨f, fs, hdrop⟩ : ∃ f fs, cst.drop k = f :: fs := by
    cases hd : cst.drop k with
    | nil => have := congrArg List.length hd; simp at this; omega
    | cons f fs => exact ⟨f, fs, rfl⟩
  have hst1 : (if (bstOf cst).length - 1 - k ≠ (bstOf cst).length - 1 then (bstOf cst).take ((bstOf cst).length - 1 - k + 1)
      else bstOf cst) = bstOf fs ++ [toB f] := by
    rw [bstOf_length]
    have ht : (bstOf cst).take (cst.length - k) = bstOf fs ++ [toB f] := by
      rw [bstOf_take cst k (by omega), hdrop, bstOf_cons]
    by_cases hk0 : k = 0
    · subst hk0
      simp only [Nat.sub_zero, ne_eq, not_true_eq_false, if_false]
      have : (bstOf cst).take (cst.length - 0) = bstOf cst := by
        rw [Nat.sub_zero, ← bstOf_length cst, List.take_length]
      rw [← this]; exact ht
    · have hne1 : cst.length - 1 - k ≠ cst.length - 1 := by omega
      simp only [hne1, ne_eq, not_false_eq_true, if_true]
      have : cst.length - 1 - k + 1 = cst.length - k := by omega
      rw [this]; exact ht
  have hfmem : f ∈ cst := by
    have : f ∈ cst.drop k := by rw [hdrop]; simp
    exact List.mem_of_mem_drop this
  have hfpl := hpl f hfmem
  have hgl : (bstOf fs ++ [toB f]).getLast? = some (toB f) := by simp
  have hdl : (bstOf fs ++ [toB f]).dropLast = bstOf fs := by simp
  have hxd : (init ++ [b]).dropLast = init := by simp
  have hxl : (init ++ [b]).getLast?.getD [] = b := by simp
  have hkge : ¬ k ≥ (bstOf cst).length := by rw [bstOf_length]; omega
  have hdireq : (joinSep init ≠ (toB f).dir) ↔ ¬ (f.dir = init) := by
    simp only [toB]
    constructor
    · intro h e; exact h (by rw [e])
    · intro h e; exact h (joinSep_inj hfpl hinit e.symm)
  have hL : vsearch (bstOf cst) (joinSep init) b isDel isDir =
      (if (decide (joinSep init ≠ (toB f).dir) || strGe (toB f).last b) = true then VRes.reject
       else if (!isDel && isDir) = true then
         VRes.ok (bstOf fs ++ [{ toB f with last := b }] ++ [⟨joinB [joinSep init, b], []⟩])
       else VRes.ok (bstOf fs ++ [{ toB f with last := b }])) := by
    unfold vsearch
    simp only [hk, hkge, if_false, hst1, hgl, hdl]
  have hR : step cst ⟨init ++ [b], !isDel && isDir⟩ =
      (if f.dir = init ∧ strLt f.last b = true then
        some (if (!isDel && isDir) = true then ⟨init ++ [b], []⟩ :: { f with last := b } :: fs else { f with last := b } :: fs)
       else none) := by
    unfold step
    simp only [hxd, hxl, hpop, hdrop]
  rw [hL, hR]
  clear hL hR hpred hmono hlo hhi hk hrpred
  by_cases hfd : f.dir = init
  · by_cases hlt : strLt f.last b = true
    · have hcond : (decide (joinSep init ≠ (toB f).dir) || strGe (toB f).last b) = false := by
        have : ¬ (joinSep init ≠ (toB f).dir) := by rw [hdireq]; simp [hfd]
        have h1 : decide (joinSep init ≠ (toB f).dir) = false := decide_eq_false this
        rw [h1]; simp [strGe, toB, hlt]
      simp only [hcond, Bool.false_eq_true, if_false, hfd, hlt, and_self, if_true]
      cases hd : (!isDel && isDir) with
      | true =>
        simp only [if_true, bstOf_cons, toB, List.append_assoc]
        rw [hfd, joinB_dir_base init b hp]
      | false =>
        simp only [Bool.false_eq_true, if_false, bstOf_cons, toB]
        rw [hfd]
    · have hcond : (decide (joinSep init ≠ (toB f).dir) || strGe (toB f).last b) = true := by
        simp [strGe, toB, hlt]
      rw [if_pos hcond, if_neg (by simp [hlt])]
  · have hcond : (decide (joinSep init ≠ (toB f).dir) || strGe (toB f).last b) = true := by
      have : (joinSep init ≠ (toB f).dir) := hdireq.mpr hfd
      simp [this]
    rw [if_pos hcond, if_neg (by simp [hfd])]

end Fsm
