import FsutilModel.ValidatorBridge5
/-! Bridge, part 4: the byte-level validator run equals the byte-level specification run, for every change sequence. -/
namespace Fsm

/-- the component-level entry a change stands for -/
def toEnt (c : Chg) : Ent := ⟨comps c.path, !c.isDel && c.isDir⟩

/-- a change whose path passed the lexical tests: it is the join of plain components -/
def Good (c : Chg) : Prop := PlainComps (comps c.path) ∧ c.path = joinSep (comps c.path)

theorem cleanRelB_iff (p : Path) : cleanRelB p = true ↔ isCleanRel true p := by
  unfold cleanRelB isCleanRel hasPrefixB dotdotSlash
  simp only [Bool.and_eq_true, decide_eq_true_eq, Bool.not_eq_true', ne_eq, decide_not, Bool.not_eq_true]
  have hpre : ([46, 46, 47] : Path).isPrefixOf p = false ↔ ¬ ((dd ++ [sep]) <+: p) := by
    have : (dd ++ [sep] : Path) = [46, 46, 47] := by decide
    rw [this]
    constructor
    · intro h hp; rw [List.isPrefixOf_iff_prefix.mpr hp] at h; cases h
    · intro h
      cases hc : ([46, 46, 47] : Path).isPrefixOf p with
      | false => rfl
      | true => exact absurd (List.isPrefixOf_iff_prefix.mp hc) h
  constructor
  · rintro ⟨⟨⟨⟨h1, h2⟩, h3⟩, h4⟩, h5⟩
    refine ⟨h1.symm, h2, hpre.mp h5, fun _ => ⟨?_, ?_⟩⟩
    · simpa using h3
    · simpa using h4
  · rintro ⟨h1, h2, h3, h4⟩
    obtain ⟨h4a, h4b⟩ := h4 trivial
    exact ⟨⟨⟨⟨h1.symm, h2⟩, by simpa using h4a⟩, by simpa using h4b⟩, hpre.mpr h3⟩

theorem good_of_cleanRel (c : Chg) (h : cleanRelB c.path = true) : Good c ∧ comps c.path ≠ [] := by
  obtain ⟨cs, hpl, hp⟩ := (isCleanRel_iff_plain c.path).mp ((cleanRelB_iff _).mp h)
  have hc : comps c.path = cs := by rw [hp]; exact comps_joinSep cs hpl.1 (fun x hx => (hpl.2 x hx).2)
  exact ⟨⟨by rw [hc]; exact hpl.2, by rw [hc]; exact hp⟩, by rw [hc]; exact hpl.1⟩

/-- a path that fails the lexical tests is rejected by `HandleChange`, whatever the stack -/
theorem vstep_reject_of_not_cleanRel (st : List VFrame) (isDel isDir : Bool) (p : Path) (h : cleanRelB p = false) :
    vstep true st isDel p isDir = .reject := by
  unfold cleanRelB at h
  unfold vstep
  by_cases h1 : p ≠ clean p
  · simp [h1]
  · by_cases h2 : isAbs p = true
    · simp [h1, h2]
    · by_cases h3 : p = [dot] ∨ p = dd
      · have : (decide (p = [dot]) || decide (p = dd)) = true := by simpa using h3
        simp [h1, h2, this]
      · have h5 : hasPrefixB dotdotSlash p = true := by
          have h1' : p = clean p := by simpa using h1
          have h3' : p ≠ [dot] ∧ p ≠ dd := by simpa [not_or] using h3
          simp only [Bool.and_eq_false_iff] at h
          have hA : decide (p = clean p) = true := by simpa using h1'
          have hB : (!isAbs p) = true := by simpa using h2
          have hC : decide (p ≠ [dot]) = true := by simpa using h3'.1
          have hD : decide (p ≠ dd) = true := by simpa using h3'.2
          simp only [hA, hB, hC, hD, Bool.and_self, Bool.true_and] at h
          simpa using h
        have h3'' : (decide (p = [dot]) || decide (p = dd)) = false := by simpa [not_or] using h3
        simp [h1, h2, h3'', h5]

end Fsm

namespace Fsm

theorem parentOf_snoc (init : List Path) (b : Path) (hp : PlainComps (init ++ [b])) :
    parentOf (joinSep (init ++ [b])) = joinSep init := by
  have hb := hp b (by simp)
  have hinit : PlainComps init := fun c hc => hp c (by simp [hc])
  have hdir0 := dirB_snoc init b (fun c hc => (hinit c hc).1) hinit.sepfree hb.2
  unfold parentOf
  simp only [hdir0]
  by_cases hi : init = []
  · simp [hi, joinSep]
  · have := (lexical_pass init hinit hi).2.2.1
    simp [hi, this]

theorem split_last (cs : List Path) (h : cs ≠ []) : ∃ init b, cs = init ++ [b] :=
  ⟨cs.dropLast, cs.getLast h, (List.dropLast_concat_getLast h).symm⟩

theorem specOk_iff (pre : List Chg) (x : Chg) (hpre : ∀ y ∈ pre, Good y ∧ comps y.path ≠ [])
    (hx : cleanRelB x.path = true) :
    specOk pre x = true ↔ specStep (pre.map toEnt) (toEnt x) := by
  obtain ⟨⟨hxp, hxj⟩, hxne⟩ := good_of_cleanRel x hx
  obtain ⟨init, b, hib⟩ := split_last _ hxne
  have hpar : parentOf x.path = joinSep init := by
    rw [hxj, hib]; exact parentOf_snoc init b (hib ▸ hxp)
  have hinit : PlainComps init := fun c hc => hxp c (by rw [hib]; simp [hc])
  unfold specOk specStep
  simp only [hx, Bool.true_and, Bool.and_eq_true, Bool.or_eq_true, decide_eq_true_eq, toEnt, hib, List.dropLast_concat]
  -- the order clause
  have hord : (match pre.getLast? with | none => true | some l => decide (comparePath l.path x.path < 0)) = true ↔
      ∀ l, (pre.map toEnt).getLast? = some l → compsLt l.path (init ++ [b]) = true := by
    cases hl : pre.getLast? with
    | none =>
      have : pre = [] := by simpa using hl
      subst this; simp
    | some l =>
      have hlm : l ∈ pre := List.mem_of_getLast? hl
      obtain ⟨⟨hlp, hlj⟩, hlne⟩ := hpre l hlm
      have hml : (pre.map toEnt).getLast? = some (toEnt l) := by rw [List.getLast?_map, hl]; rfl
      simp only [decide_eq_true_eq, hml, Option.some.injEq]
      have hcmp := cmp_joinSep (comps l.path) (init ++ [b]) hlp.sepfree (hib ▸ hxp).sepfree hlne (by simp)
      rw [← hlj, ← hib, ← hxj] at hcmp
      rw [← hib]
      constructor
      · intro h l' hl'; subst hl'; exact hcmp.mp h
      · intro h; exact hcmp.mpr (h _ rfl)
  -- the parent clause
  have hparc : (parentOf x.path = [] ∨ (pre.any fun y => decide (y.path = parentOf x.path) && y.isDir && !y.isDel) = true) ↔
      (init = [] ∨ ∃ y ∈ pre.map toEnt, y.isDir = true ∧ y.path = init) := by
    rw [hpar]
    constructor
    · rintro (h | h)
      · left
        by_cases hi : init = []
        · exact hi
        · exact absurd h (joinSep_ne_nil hinit hi)
      · right
        obtain ⟨y, hy, hyc⟩ := List.any_eq_true.mp h
        simp only [Bool.and_eq_true, decide_eq_true_eq, Bool.not_eq_true'] at hyc
        obtain ⟨⟨hyp, hyd⟩, hydel⟩ := hyc
        obtain ⟨⟨hypl, hyj⟩, _⟩ := hpre y hy
        refine ⟨toEnt y, List.mem_map.mpr ⟨y, hy, rfl⟩, by simp [toEnt, hyd, hydel], ?_⟩
        simp only [toEnt]
        apply joinSep_inj hypl hinit
        rw [← hyj, hyp]
    · rintro (h | ⟨y', hy', hyd, hyp⟩)
      · left; rw [h]; rfl
      · right
        obtain ⟨y, hy, rfl⟩ := List.mem_map.mp hy'
        obtain ⟨⟨hypl, hyj⟩, _⟩ := hpre y hy
        simp only [toEnt, Bool.and_eq_true, Bool.not_eq_true'] at hyd hyp
        refine List.any_eq_true.mpr ⟨y, hy, ?_⟩
        simp only [Bool.and_eq_true, decide_eq_true_eq, Bool.not_eq_true']
        refine ⟨⟨?_, hyd.2⟩, hyd.1⟩
        rw [hyj, hyp]
  exact and_congr hord hparc

end Fsm
