import FsutilModel.WireVar
/-! Round trip of the transcribed `types.Stat` codec: `unmarshalStat (marshalStat s) = .ok s` for every well-formed
`s`, proved over the transcription of the generated decoder (tag dispatch, wire-type checks, bounds checks, nested
map-entry loop). -/
namespace Fsm.W

theorem slice_at {d : Bytes} {a : Nat} {bs : List Nat} (h : At d a bs) : slice d a (a + bs.length) = bs := by
  unfold slice
  apply List.ext_getElem?
  intro j
  simp only [Array.getElem?_toList, Array.getElem?_extract]
  by_cases hj : j < bs.length
  · have := h j hj
    have hb := At.bound h (by intro e; simp [e] at hj)
    have : j < min (a + bs.length) d.size - a := by omega
    simp [this, h j hj, List.getElem?_eq_getElem hj]
  · have : ¬ j < min (a + bs.length) d.size - a := by omega
    simp [this]
    omega

theorem sliceC_at {d : Bytes} {a : Nat} {bs : List Nat} (h : At d a bs) (hb : a + bs.length ≤ d.size) :
    sliceC d a (a + bs.length) = .ok bs := by
  unfold sliceC
  have : a ≤ a + bs.length ∧ a + bs.length ≤ d.size := ⟨by omega, hb⟩
  simp [this, slice_at h]

theorem toInt64_small (n : Nat) (h : n < two63) : toInt64 n = (n : Int) := by
  unfold toInt64
  have : n % two64 = n := Nat.mod_eq_of_lt (by unfold two63 at h; unfold two64; omega)
  simp [this, h]

theorem readLen_enc (d : Bytes) (l i : Nat) (bs : List Nat) (hl63 : l < two63)
    (hat : At d i (encVar bs.length)) 
    (hl : i + (encVar bs.length).length + bs.length ≤ l) :
    readLen d l i = .ok (i + (encVar bs.length).length, i + (encVar bs.length).length + bs.length) := by
  have hlen : bs.length < two63 := by omega
  have hr := readVar_enc d l i bs.length (by unfold two63 at hlen; unfold two64; omega) hat (by omega)
  unfold readLen
  simp only [hr, bind, Except.bind, toInt64_small _ hlen]
  have h2 : ¬ (two63 ≤ i + (encVar bs.length).length + bs.length) := by omega
  have h3 : ¬ (l < i + (encVar bs.length).length + bs.length) := by omega
  simp [h2, h3, pure, Except.pure]



theorem encVar_small (t : Nat) (h : t < 128) : encVar t = [t] := by
  unfold encVar
  have : t % two64 = t := Nat.mod_eq_of_lt (by unfold two64; omega)
  simp [this, encVarLoop, h]

theorem readTag (d : Bytes) (l i t : Nat) (ht : t < 128) (hd : d[i]? = some t) (hl : i < l) :
    readVar d l i = .ok (t, i + 1) := by
  have h := readVar_enc d l i t (by unfold two64; omega) (by rw [encVar_small t ht]; exact At.cons.mpr ⟨hd, At.nil _ _⟩)
    (by rw [encVar_small t ht]; simp; omega)
  rw [encVar_small t ht] at h
  simpa using h


/-- what remains to be decoded at offset `i` with partial value `m` yields `R`, for any sufficient fuel -/
def DecS (d : Bytes) (l i : Nat) (m : PStat) (R : Except Err PStat) : Prop :=
  ∀ fuel, l - i + 1 ≤ fuel → unmarshalStatLoop d l fuel i m = R

theorem DecS.done (d : Bytes) (l : Nat) (m : PStat) : DecS d l l m (.ok m) := by
  intro fuel hf
  cases fuel with
  | zero => omega
  | succ fuel => rw [unmarshalStatLoop]; simp

theorem step_mode (d : Bytes) (l fuel i v : Nat) (m : PStat) (hv : v < two64)
    (hat : At d i (16 :: encVar v)) (hl : i + 1 + (encVar v).length ≤ l) :
    unmarshalStatLoop d l (fuel + 1) i m
      = unmarshalStatLoop d l fuel (i + 1 + (encVar v).length) { m with mode := v % two32 } := by
  obtain ⟨hd, hat'⟩ := At.cons.mp hat
  have hp := encVar_len_pos v
  have htag := readTag d l i 16 (by omega) hd (by omega)
  have hval := readVar_enc d l (i + 1) v hv hat' (by omega)
  have hil : ¬ i ≥ l := by omega
  rw [unmarshalStatLoop]
  simp only [hil, if_false, htag, hval, statField, varintFieldG, bind, Except.bind, pure, Except.pure]
  simp [toInt32, two32]

/-- optional field `mode` (omitted by the encoder when zero) followed by `rest` -/
theorem odec_mode {d : Bytes} {l i v : Nat} {m : PStat} {R : Except Err PStat} {rest : List Nat}
    (hv : v < two64) (hm0 : v = 0 → { m with mode := v % two32 } = m)
    (hat : At d i (encVarField 16 v ++ rest)) (hl : i + (encVarField 16 v ++ rest).length = l)
    (h : ∀ i', At d i' rest → i' + rest.length = l → DecS d l i' { m with mode := v % two32 } R) : DecS d l i m R := by
  by_cases h0 : v = 0
  · have he : encVarField 16 v = [] := by simp [encVarField, h0]
    rw [he] at hat hl
    have := h i (by simpa using hat) (by simpa using hl)
    rw [hm0 h0] at this; exact this
  · have he : encVarField 16 v = 16 :: encVar v := by simp [encVarField, h0]
    rw [he] at hat hl
    obtain ⟨hat1, hat2⟩ := At.append.mp hat
    simp only [List.length_append, List.length_cons] at hl hat2
    intro fuel hf
    have hp := encVar_len_pos v
    cases fuel with
    | zero => omega
    | succ fuel =>
      rw [step_mode d l fuel i v m hv hat1 (by omega)]
      exact h (i + 1 + (encVar v).length) (by rw [show i + 1 + (encVar v).length = i + ((encVar v).length + 1) by omega]; exact hat2)
        (by omega) fuel (by omega)

theorem step_uid (d : Bytes) (l fuel i v : Nat) (m : PStat) (hv : v < two64)
    (hat : At d i (24 :: encVar v)) (hl : i + 1 + (encVar v).length ≤ l) :
    unmarshalStatLoop d l (fuel + 1) i m
      = unmarshalStatLoop d l fuel (i + 1 + (encVar v).length) { m with uid := v % two32 } := by
  obtain ⟨hd, hat'⟩ := At.cons.mp hat
  have hp := encVar_len_pos v
  have htag := readTag d l i 24 (by omega) hd (by omega)
  have hval := readVar_enc d l (i + 1) v hv hat' (by omega)
  have hil : ¬ i ≥ l := by omega
  rw [unmarshalStatLoop]
  simp only [hil, if_false, htag, hval, statField, varintFieldG, bind, Except.bind, pure, Except.pure]
  simp [toInt32, two32]

/-- optional field `uid` (omitted by the encoder when zero) followed by `rest` -/
theorem odec_uid {d : Bytes} {l i v : Nat} {m : PStat} {R : Except Err PStat} {rest : List Nat}
    (hv : v < two64) (hm0 : v = 0 → { m with uid := v % two32 } = m)
    (hat : At d i (encVarField 24 v ++ rest)) (hl : i + (encVarField 24 v ++ rest).length = l)
    (h : ∀ i', At d i' rest → i' + rest.length = l → DecS d l i' { m with uid := v % two32 } R) : DecS d l i m R := by
  by_cases h0 : v = 0
  · have he : encVarField 24 v = [] := by simp [encVarField, h0]
    rw [he] at hat hl
    have := h i (by simpa using hat) (by simpa using hl)
    rw [hm0 h0] at this; exact this
  · have he : encVarField 24 v = 24 :: encVar v := by simp [encVarField, h0]
    rw [he] at hat hl
    obtain ⟨hat1, hat2⟩ := At.append.mp hat
    simp only [List.length_append, List.length_cons] at hl hat2
    intro fuel hf
    have hp := encVar_len_pos v
    cases fuel with
    | zero => omega
    | succ fuel =>
      rw [step_uid d l fuel i v m hv hat1 (by omega)]
      exact h (i + 1 + (encVar v).length) (by rw [show i + 1 + (encVar v).length = i + ((encVar v).length + 1) by omega]; exact hat2)
        (by omega) fuel (by omega)

theorem step_gid (d : Bytes) (l fuel i v : Nat) (m : PStat) (hv : v < two64)
    (hat : At d i (32 :: encVar v)) (hl : i + 1 + (encVar v).length ≤ l) :
    unmarshalStatLoop d l (fuel + 1) i m
      = unmarshalStatLoop d l fuel (i + 1 + (encVar v).length) { m with gid := v % two32 } := by
  obtain ⟨hd, hat'⟩ := At.cons.mp hat
  have hp := encVar_len_pos v
  have htag := readTag d l i 32 (by omega) hd (by omega)
  have hval := readVar_enc d l (i + 1) v hv hat' (by omega)
  have hil : ¬ i ≥ l := by omega
  rw [unmarshalStatLoop]
  simp only [hil, if_false, htag, hval, statField, varintFieldG, bind, Except.bind, pure, Except.pure]
  simp [toInt32, two32]

/-- optional field `gid` (omitted by the encoder when zero) followed by `rest` -/
theorem odec_gid {d : Bytes} {l i v : Nat} {m : PStat} {R : Except Err PStat} {rest : List Nat}
    (hv : v < two64) (hm0 : v = 0 → { m with gid := v % two32 } = m)
    (hat : At d i (encVarField 32 v ++ rest)) (hl : i + (encVarField 32 v ++ rest).length = l)
    (h : ∀ i', At d i' rest → i' + rest.length = l → DecS d l i' { m with gid := v % two32 } R) : DecS d l i m R := by
  by_cases h0 : v = 0
  · have he : encVarField 32 v = [] := by simp [encVarField, h0]
    rw [he] at hat hl
    have := h i (by simpa using hat) (by simpa using hl)
    rw [hm0 h0] at this; exact this
  · have he : encVarField 32 v = 32 :: encVar v := by simp [encVarField, h0]
    rw [he] at hat hl
    obtain ⟨hat1, hat2⟩ := At.append.mp hat
    simp only [List.length_append, List.length_cons] at hl hat2
    intro fuel hf
    have hp := encVar_len_pos v
    cases fuel with
    | zero => omega
    | succ fuel =>
      rw [step_gid d l fuel i v m hv hat1 (by omega)]
      exact h (i + 1 + (encVar v).length) (by rw [show i + 1 + (encVar v).length = i + ((encVar v).length + 1) by omega]; exact hat2)
        (by omega) fuel (by omega)

theorem step_size (d : Bytes) (l fuel i v : Nat) (m : PStat) (hv : v < two64)
    (hat : At d i (40 :: encVar v)) (hl : i + 1 + (encVar v).length ≤ l) :
    unmarshalStatLoop d l (fuel + 1) i m
      = unmarshalStatLoop d l fuel (i + 1 + (encVar v).length) { m with size := toInt64 v } := by
  obtain ⟨hd, hat'⟩ := At.cons.mp hat
  have hp := encVar_len_pos v
  have htag := readTag d l i 40 (by omega) hd (by omega)
  have hval := readVar_enc d l (i + 1) v hv hat' (by omega)
  have hil : ¬ i ≥ l := by omega
  rw [unmarshalStatLoop]
  simp only [hil, if_false, htag, hval, statField, varintFieldG, bind, Except.bind, pure, Except.pure]
  simp [toInt32, two32]

/-- optional field `size` (omitted by the encoder when zero) followed by `rest` -/
theorem odec_size {d : Bytes} {l i v : Nat} {m : PStat} {R : Except Err PStat} {rest : List Nat}
    (hv : v < two64) (hm0 : v = 0 → { m with size := toInt64 v } = m)
    (hat : At d i (encVarField 40 v ++ rest)) (hl : i + (encVarField 40 v ++ rest).length = l)
    (h : ∀ i', At d i' rest → i' + rest.length = l → DecS d l i' { m with size := toInt64 v } R) : DecS d l i m R := by
  by_cases h0 : v = 0
  · have he : encVarField 40 v = [] := by simp [encVarField, h0]
    rw [he] at hat hl
    have := h i (by simpa using hat) (by simpa using hl)
    rw [hm0 h0] at this; exact this
  · have he : encVarField 40 v = 40 :: encVar v := by simp [encVarField, h0]
    rw [he] at hat hl
    obtain ⟨hat1, hat2⟩ := At.append.mp hat
    simp only [List.length_append, List.length_cons] at hl hat2
    intro fuel hf
    have hp := encVar_len_pos v
    cases fuel with
    | zero => omega
    | succ fuel =>
      rw [step_size d l fuel i v m hv hat1 (by omega)]
      exact h (i + 1 + (encVar v).length) (by rw [show i + 1 + (encVar v).length = i + ((encVar v).length + 1) by omega]; exact hat2)
        (by omega) fuel (by omega)

theorem step_mtime (d : Bytes) (l fuel i v : Nat) (m : PStat) (hv : v < two64)
    (hat : At d i (48 :: encVar v)) (hl : i + 1 + (encVar v).length ≤ l) :
    unmarshalStatLoop d l (fuel + 1) i m
      = unmarshalStatLoop d l fuel (i + 1 + (encVar v).length) { m with mtime := toInt64 v } := by
  obtain ⟨hd, hat'⟩ := At.cons.mp hat
  have hp := encVar_len_pos v
  have htag := readTag d l i 48 (by omega) hd (by omega)
  have hval := readVar_enc d l (i + 1) v hv hat' (by omega)
  have hil : ¬ i ≥ l := by omega
  rw [unmarshalStatLoop]
  simp only [hil, if_false, htag, hval, statField, varintFieldG, bind, Except.bind, pure, Except.pure]
  simp [toInt32, two32]

/-- optional field `mtime` (omitted by the encoder when zero) followed by `rest` -/
theorem odec_mtime {d : Bytes} {l i v : Nat} {m : PStat} {R : Except Err PStat} {rest : List Nat}
    (hv : v < two64) (hm0 : v = 0 → { m with mtime := toInt64 v } = m)
    (hat : At d i (encVarField 48 v ++ rest)) (hl : i + (encVarField 48 v ++ rest).length = l)
    (h : ∀ i', At d i' rest → i' + rest.length = l → DecS d l i' { m with mtime := toInt64 v } R) : DecS d l i m R := by
  by_cases h0 : v = 0
  · have he : encVarField 48 v = [] := by simp [encVarField, h0]
    rw [he] at hat hl
    have := h i (by simpa using hat) (by simpa using hl)
    rw [hm0 h0] at this; exact this
  · have he : encVarField 48 v = 48 :: encVar v := by simp [encVarField, h0]
    rw [he] at hat hl
    obtain ⟨hat1, hat2⟩ := At.append.mp hat
    simp only [List.length_append, List.length_cons] at hl hat2
    intro fuel hf
    have hp := encVar_len_pos v
    cases fuel with
    | zero => omega
    | succ fuel =>
      rw [step_mtime d l fuel i v m hv hat1 (by omega)]
      exact h (i + 1 + (encVar v).length) (by rw [show i + 1 + (encVar v).length = i + ((encVar v).length + 1) by omega]; exact hat2)
        (by omega) fuel (by omega)

theorem step_devmajor (d : Bytes) (l fuel i v : Nat) (m : PStat) (hv : v < two64)
    (hat : At d i (64 :: encVar v)) (hl : i + 1 + (encVar v).length ≤ l) :
    unmarshalStatLoop d l (fuel + 1) i m
      = unmarshalStatLoop d l fuel (i + 1 + (encVar v).length) { m with devmajor := toInt64 v } := by
  obtain ⟨hd, hat'⟩ := At.cons.mp hat
  have hp := encVar_len_pos v
  have htag := readTag d l i 64 (by omega) hd (by omega)
  have hval := readVar_enc d l (i + 1) v hv hat' (by omega)
  have hil : ¬ i ≥ l := by omega
  rw [unmarshalStatLoop]
  simp only [hil, if_false, htag, hval, statField, varintFieldG, bind, Except.bind, pure, Except.pure]
  simp [toInt32, two32]

/-- optional field `devmajor` (omitted by the encoder when zero) followed by `rest` -/
theorem odec_devmajor {d : Bytes} {l i v : Nat} {m : PStat} {R : Except Err PStat} {rest : List Nat}
    (hv : v < two64) (hm0 : v = 0 → { m with devmajor := toInt64 v } = m)
    (hat : At d i (encVarField 64 v ++ rest)) (hl : i + (encVarField 64 v ++ rest).length = l)
    (h : ∀ i', At d i' rest → i' + rest.length = l → DecS d l i' { m with devmajor := toInt64 v } R) : DecS d l i m R := by
  by_cases h0 : v = 0
  · have he : encVarField 64 v = [] := by simp [encVarField, h0]
    rw [he] at hat hl
    have := h i (by simpa using hat) (by simpa using hl)
    rw [hm0 h0] at this; exact this
  · have he : encVarField 64 v = 64 :: encVar v := by simp [encVarField, h0]
    rw [he] at hat hl
    obtain ⟨hat1, hat2⟩ := At.append.mp hat
    simp only [List.length_append, List.length_cons] at hl hat2
    intro fuel hf
    have hp := encVar_len_pos v
    cases fuel with
    | zero => omega
    | succ fuel =>
      rw [step_devmajor d l fuel i v m hv hat1 (by omega)]
      exact h (i + 1 + (encVar v).length) (by rw [show i + 1 + (encVar v).length = i + ((encVar v).length + 1) by omega]; exact hat2)
        (by omega) fuel (by omega)

theorem step_devminor (d : Bytes) (l fuel i v : Nat) (m : PStat) (hv : v < two64)
    (hat : At d i (72 :: encVar v)) (hl : i + 1 + (encVar v).length ≤ l) :
    unmarshalStatLoop d l (fuel + 1) i m
      = unmarshalStatLoop d l fuel (i + 1 + (encVar v).length) { m with devminor := toInt64 v } := by
  obtain ⟨hd, hat'⟩ := At.cons.mp hat
  have hp := encVar_len_pos v
  have htag := readTag d l i 72 (by omega) hd (by omega)
  have hval := readVar_enc d l (i + 1) v hv hat' (by omega)
  have hil : ¬ i ≥ l := by omega
  rw [unmarshalStatLoop]
  simp only [hil, if_false, htag, hval, statField, varintFieldG, bind, Except.bind, pure, Except.pure]
  simp [toInt32, two32]

/-- optional field `devminor` (omitted by the encoder when zero) followed by `rest` -/
theorem odec_devminor {d : Bytes} {l i v : Nat} {m : PStat} {R : Except Err PStat} {rest : List Nat}
    (hv : v < two64) (hm0 : v = 0 → { m with devminor := toInt64 v } = m)
    (hat : At d i (encVarField 72 v ++ rest)) (hl : i + (encVarField 72 v ++ rest).length = l)
    (h : ∀ i', At d i' rest → i' + rest.length = l → DecS d l i' { m with devminor := toInt64 v } R) : DecS d l i m R := by
  by_cases h0 : v = 0
  · have he : encVarField 72 v = [] := by simp [encVarField, h0]
    rw [he] at hat hl
    have := h i (by simpa using hat) (by simpa using hl)
    rw [hm0 h0] at this; exact this
  · have he : encVarField 72 v = 72 :: encVar v := by simp [encVarField, h0]
    rw [he] at hat hl
    obtain ⟨hat1, hat2⟩ := At.append.mp hat
    simp only [List.length_append, List.length_cons] at hl hat2
    intro fuel hf
    have hp := encVar_len_pos v
    cases fuel with
    | zero => omega
    | succ fuel =>
      rw [step_devminor d l fuel i v m hv hat1 (by omega)]
      exact h (i + 1 + (encVar v).length) (by rw [show i + 1 + (encVar v).length = i + ((encVar v).length + 1) by omega]; exact hat2)
        (by omega) fuel (by omega)

theorem step_path (d : Bytes) (l fuel i : Nat) (bs : List Nat) (m : PStat) (hl63 : l < two63) (hld : l ≤ d.size)
    (hat : At d i (10 :: (encVar bs.length ++ bs))) (hl : i + 1 + (encVar bs.length).length + bs.length ≤ l) :
    unmarshalStatLoop d l (fuel + 1) i m
      = unmarshalStatLoop d l fuel (i + 1 + (encVar bs.length).length + bs.length) { m with path := bs } := by
  obtain ⟨hd, hat'⟩ := At.cons.mp hat
  obtain ⟨hat1, hat2⟩ := At.append.mp hat'
  have hp := encVar_len_pos bs.length
  have htag := readTag d l i 10 (by omega) hd (by omega)
  have hlen := readLen_enc d l (i + 1) bs hl63 hat1 (by omega)
  have hsl := sliceC_at hat2 (by omega)
  have hil : ¬ i ≥ l := by omega
  rw [unmarshalStatLoop]
  simp only [hil, if_false, htag, hlen, statField, bytesFieldG, xattrField, bind, Except.bind, pure, Except.pure]
  simp [toInt32, two32, hsl]

theorem odec_path {d : Bytes} {l i : Nat} {bs : List Nat} {m : PStat} {R : Except Err PStat} {rest : List Nat}
    (hl63 : l < two63) (hld : l ≤ d.size) (hm0 : bs = [] → { m with path := bs } = m)
    (hat : At d i (encBytesField 10 bs ++ rest)) (hl : i + (encBytesField 10 bs ++ rest).length = l)
    (h : ∀ i', At d i' rest → i' + rest.length = l → DecS d l i' { m with path := bs } R) : DecS d l i m R := by
  by_cases h0 : bs = []
  · have he : encBytesField 10 bs = [] := by simp [encBytesField, h0]
    rw [he] at hat hl
    have := h i (by simpa using hat) (by simpa using hl)
    rw [hm0 h0] at this; exact this
  · have he : encBytesField 10 bs = 10 :: (encVar bs.length ++ bs) := by
      simp [encBytesField, h0]
    rw [he] at hat hl
    obtain ⟨hat1, hat2⟩ := At.append.mp hat
    simp only [List.length_append, List.length_cons] at hl hat2
    intro fuel hf
    have hp := encVar_len_pos bs.length
    cases fuel with
    | zero => omega
    | succ fuel =>
      rw [step_path d l fuel i bs m hl63 hld hat1 (by omega)]
      exact h (i + 1 + (encVar bs.length).length + bs.length)
        (by rw [show i + 1 + (encVar bs.length).length + bs.length = i + ((encVar bs.length).length + bs.length + 1) by omega]; exact hat2)
        (by omega) fuel (by omega)

theorem step_linkname (d : Bytes) (l fuel i : Nat) (bs : List Nat) (m : PStat) (hl63 : l < two63) (hld : l ≤ d.size)
    (hat : At d i (58 :: (encVar bs.length ++ bs))) (hl : i + 1 + (encVar bs.length).length + bs.length ≤ l) :
    unmarshalStatLoop d l (fuel + 1) i m
      = unmarshalStatLoop d l fuel (i + 1 + (encVar bs.length).length + bs.length) { m with linkname := bs } := by
  obtain ⟨hd, hat'⟩ := At.cons.mp hat
  obtain ⟨hat1, hat2⟩ := At.append.mp hat'
  have hp := encVar_len_pos bs.length
  have htag := readTag d l i 58 (by omega) hd (by omega)
  have hlen := readLen_enc d l (i + 1) bs hl63 hat1 (by omega)
  have hsl := sliceC_at hat2 (by omega)
  have hil : ¬ i ≥ l := by omega
  rw [unmarshalStatLoop]
  simp only [hil, if_false, htag, hlen, statField, bytesFieldG, xattrField, bind, Except.bind, pure, Except.pure]
  simp [toInt32, two32, hsl]

theorem odec_linkname {d : Bytes} {l i : Nat} {bs : List Nat} {m : PStat} {R : Except Err PStat} {rest : List Nat}
    (hl63 : l < two63) (hld : l ≤ d.size) (hm0 : bs = [] → { m with linkname := bs } = m)
    (hat : At d i (encBytesField 58 bs ++ rest)) (hl : i + (encBytesField 58 bs ++ rest).length = l)
    (h : ∀ i', At d i' rest → i' + rest.length = l → DecS d l i' { m with linkname := bs } R) : DecS d l i m R := by
  by_cases h0 : bs = []
  · have he : encBytesField 58 bs = [] := by simp [encBytesField, h0]
    rw [he] at hat hl
    have := h i (by simpa using hat) (by simpa using hl)
    rw [hm0 h0] at this; exact this
  · have he : encBytesField 58 bs = 58 :: (encVar bs.length ++ bs) := by
      simp [encBytesField, h0]
    rw [he] at hat hl
    obtain ⟨hat1, hat2⟩ := At.append.mp hat
    simp only [List.length_append, List.length_cons] at hl hat2
    intro fuel hf
    have hp := encVar_len_pos bs.length
    cases fuel with
    | zero => omega
    | succ fuel =>
      rw [step_linkname d l fuel i bs m hl63 hld hat1 (by omega)]
      exact h (i + 1 + (encVar bs.length).length + bs.length)
        (by rw [show i + 1 + (encVar bs.length).length + bs.length = i + ((encVar bs.length).length + bs.length + 1) by omega]; exact hat2)
        (by omega) fuel (by omega)

def xbody (kv : List Nat × List Nat) : List Nat :=
  (10 :: (encVar kv.1.length ++ kv.1)) ++ (18 :: (encVar kv.2.length ++ kv.2))

theorem encXattr_eq (kv : List Nat × List Nat) : encXattr kv = 82 :: (encVar (xbody kv).length ++ xbody kv) := by
  simp [encXattr, xbody]

theorem entry_loop (d : Bytes) (l a : Nat) (kv : List Nat × List Nat) (hl63 : l < two63) (hld : l ≤ d.size)
    (hat : At d a (xbody kv)) (hl : a + (xbody kv).length ≤ l) (fuel : Nat) (hf : 3 ≤ fuel) :
    xattrEntryLoop d l (a + (xbody kv).length) fuel a [] [] = .ok (kv.1, kv.2) := by
  obtain ⟨k, v⟩ := kv
  simp only [xbody] at hat hl ⊢
  obtain ⟨hk, hv⟩ := At.append.mp hat
  obtain ⟨hkd, hk'⟩ := At.cons.mp hk
  obtain ⟨hk1, hk2⟩ := At.append.mp hk'
  obtain ⟨hvd, hv'⟩ := At.cons.mp hv
  obtain ⟨hv1, hv2⟩ := At.append.mp hv'
  simp only [List.length_append, List.length_cons] at *
  have hpk := encVar_len_pos k.length
  have hpv := encVar_len_pos v.length
  match fuel, hf with
  | f + 3, _ =>
    have ht1 := readTag d l a 10 (by omega) hkd (by omega)
    have hl1 := readLen_enc d l (a + 1) k hl63 hk1 (by omega)
    have hs1 := sliceC_at hk2 (by omega)
    have ht2 := readTag d l (a + ((encVar k.length).length + k.length + 1)) 18 (by omega) hvd (by omega)
    have hl2 := readLen_enc d l (a + ((encVar k.length).length + k.length + 1) + 1) v hl63 hv1 (by omega)
    have hs2 := sliceC_at hv2 (by omega)
    have e1 : a + 1 + (encVar k.length).length + k.length = a + ((encVar k.length).length + k.length + 1) := by omega
    rw [xattrEntryLoop]
    have c1 : ¬ a ≥ a + ((encVar k.length).length + k.length + 1 + ((encVar v.length).length + v.length + 1)) := by omega
    simp only [c1, if_false, ht1, hl1, bind, Except.bind]
    simp only [toInt32, two32]
    simp only [show (10 / 8 % 4294967296 : Nat) = 1 by decide]
    simp only [show ((1:Nat) < 2147483648) = True by decide, if_true]
    simp
    simp only [hs1]
    rw [e1, xattrEntryLoop]
    have c2 : ¬ a + ((encVar k.length).length + k.length + 1) ≥ a + ((encVar k.length).length + k.length + 1 + ((encVar v.length).length + v.length + 1)) := by omega
    simp only [c2, if_false, ht2, hl2, bind, Except.bind]
    simp only [toInt32, two32]
    simp only [show (18 / 8 % 4294967296 : Nat) = 2 by decide]
    simp only [show ((2:Nat) < 2147483648) = True by decide, if_true]
    simp
    simp only [hs2]
    rw [xattrEntryLoop]
    have c3 : a + ((encVar k.length).length + k.length + 1) + 1 + (encVar v.length).length + v.length ≥ a + ((encVar k.length).length + k.length + 1 + ((encVar v.length).length + v.length + 1)) := by omega
    simp [c3]



theorem xbody_len (kv : List Nat × List Nat) : 4 ≤ (xbody kv).length := by
  have := encVar_len_pos kv.1.length
  have := encVar_len_pos kv.2.length
  simp [xbody]; omega

theorem step_xattr (d : Bytes) (l fuel i : Nat) (kv : List Nat × List Nat) (m : PStat) (hl63 : l < two63) (hld : l ≤ d.size)
    (hat : At d i (encXattr kv)) (hl : i + (encXattr kv).length ≤ l) :
    unmarshalStatLoop d l (fuel + 1) i m
      = unmarshalStatLoop d l fuel (i + (encXattr kv).length) { m with xattrs := mapSet m.xattrs kv.1 kv.2 } := by
  rw [encXattr_eq] at hat hl ⊢
  obtain ⟨hd, hat'⟩ := At.cons.mp hat
  obtain ⟨hat1, hat2⟩ := At.append.mp hat'
  simp only [List.length_append, List.length_cons] at hl ⊢
  have hp := encVar_len_pos (xbody kv).length
  have hb := xbody_len kv
  have htag := readTag d l i 82 (by omega) hd (by omega)
  have hlen := readLen_enc d l (i + 1) (xbody kv) hl63 hat1 (by omega)
  have hent := fun fuel hf => entry_loop d l (i + 1 + (encVar (xbody kv).length).length) kv hl63 hld hat2 (by omega) fuel hf
  have hil : ¬ i ≥ l := by omega
  rw [unmarshalStatLoop]
  simp only [hil, if_false, htag, hlen, statField, bytesFieldG, xattrField, bind, Except.bind, pure, Except.pure]
  simp only [toInt32, two32]
  simp only [show (82 / 8 % 4294967296 : Nat) = 10 by decide, show (82 % 8 : Nat) = 2 by decide]
  simp only [show ((10:Nat) < 2147483648) = True by decide, if_true]
  simp
  rw [hent ((xbody kv).length + 2) (by omega)]
  simp only
  congr 1
  omega

theorem mapSet_fresh (xs : List (List Nat × List Nat)) (k v : List Nat) (h : ∀ kv ∈ xs, kv.1 ≠ k) :
    mapSet xs k v = xs ++ [(k, v)] := by
  unfold mapSet
  have : xs.any (fun kv => decide (kv.1 = k)) = false := by
    simp only [List.any_eq_false, decide_eq_true_eq]
    exact h
  simp [this]

theorem dec_xattrs (d : Bytes) (l : Nat) (hl63 : l < two63) (hld : l ≤ d.size) : ∀ (xs : List (List Nat × List Nat)) (i : Nat) (m : PStat),
    At d i (xs.flatMap encXattr) → i + (xs.flatMap encXattr).length = l →
    (∀ kv ∈ xs, ∀ e ∈ m.xattrs, e.1 ≠ kv.1) → xs.Pairwise (fun a b => a.1 ≠ b.1) →
    DecS d l i m (.ok { m with xattrs := m.xattrs ++ xs }) := by
  intro xs
  induction xs with
  | nil =>
    intro i m _ hl _ _
    simp at hl
    subst hl
    have : ({ m with xattrs := m.xattrs ++ [] } : PStat) = m := by simp
    rw [this]; exact DecS.done d i m
  | cons kv xs ih =>
    intro i m hat hl hfresh hpw
    simp only [List.flatMap_cons] at hat hl
    obtain ⟨hat1, hat2⟩ := At.append.mp hat
    simp only [List.length_append] at hl
    intro fuel hf
    have hpos : 0 < (encXattr kv).length := by rw [encXattr_eq]; simp
    cases fuel with
    | zero => omega
    | succ fuel =>
      rw [step_xattr d l fuel i kv m hl63 hld hat1 (by omega)]
      rw [mapSet_fresh m.xattrs kv.1 kv.2 (fun e he => hfresh kv (by simp) e he)]
      have hpw' := List.pairwise_cons.mp hpw
      have := ih (i + (encXattr kv).length) { m with xattrs := m.xattrs ++ [(kv.1, kv.2)] } hat2 (by omega)
        (by
          intro kv' hkv' e he
          simp only [List.mem_append, List.mem_singleton] at he
          rcases he with he | he
          · exact hfresh kv' (by simp [hkv']) e he
          · subst he; exact hpw'.1 kv' hkv')
        hpw'.2 fuel (by omega)
      simpa [List.append_assoc] using this


/-! ### the round trip -/

theorem ofInt64_lt (x : Int) : ofInt64 x < two64 := by
  unfold ofInt64
  have h1 : 0 ≤ x % (two64 : Int) := Int.emod_nonneg _ (by unfold two64; omega)
  have h2 : x % (two64 : Int) < two64 := Int.emod_lt_of_pos _ (by unfold two64; omega)
  omega

theorem toInt64_ofInt64 (x : Int) (h1 : -(two63 : Int) ≤ x) (h2 : x < two63) : toInt64 (ofInt64 x) = x := by
  have hT : two64 = 2 * two63 := by decide
  have hpos : 0 < two63 := by decide
  unfold toInt64 ofInt64
  by_cases hx : 0 ≤ x
  · have e : x % (two64 : Int) = x := Int.emod_eq_of_lt hx (by omega)
    rw [e]
    have e2 : x.toNat % two64 = x.toNat := Nat.mod_eq_of_lt (by omega)
    simp only [e2]
    split <;> omega
  · have e : x % (two64 : Int) = x + two64 := by
      rw [← Int.add_emod_right]; exact Int.emod_eq_of_lt (by omega) (by omega)
    rw [e]
    have e2 : (x + (two64 : Int)).toNat % two64 = (x + (two64 : Int)).toNat := Nat.mod_eq_of_lt (by omega)
    simp only [e2]
    split <;> omega

theorem toInt64_zero : toInt64 0 = 0 := by decide

/-- what the encoder's input must satisfy: field ranges of the Go types, map keys distinct, no unknown fields -/
structure PStat.WF (s : PStat) : Prop where
  mode : s.mode < two32
  uid : s.uid < two32
  gid : s.gid < two32
  size : -(two63 : Int) ≤ s.size ∧ s.size < two63
  mtime : -(two63 : Int) ≤ s.mtime ∧ s.mtime < two63
  devmajor : -(two63 : Int) ≤ s.devmajor ∧ s.devmajor < two63
  devminor : -(two63 : Int) ≤ s.devminor ∧ s.devminor < two63
  keys : s.xattrs.Pairwise (fun a b => a.1 ≠ b.1)
  unknown : s.unknown = []

theorem lt64_of_lt32 {v : Nat} (h : v < two32) : v < two64 := by unfold two32 at h; unfold two64; omega

/-- decoding, from any offset-0 buffer holding exactly `marshalStat s`, starting from the zero value, yields `s` -/
theorem stat_roundtrip_buf (s : PStat) (hwf : s.WF) (d : Bytes) (hd : At d 0 (marshalStat s))
    (hsz : d.size = (marshalStat s).length) (h63 : d.size < two63) :
    unmarshalStatLoop d d.size (d.size + 1) 0 {} = .ok s := by
  have main : DecS d d.size 0 {} (.ok s) := by
    unfold marshalStat at hd hsz
    rw [hwf.unknown, List.append_nil] at hd hsz
    simp only [List.append_assoc] at hd hsz
    apply odec_path h63 (Nat.le_refl _) (by intro h; simp [h]) hd (by omega)
    intro i1 hd1 hl1
    apply odec_mode (lt64_of_lt32 hwf.mode) (by intro h; simp [h]) hd1 hl1
    intro i2 hd2 hl2
    apply odec_uid (lt64_of_lt32 hwf.uid) (by intro h; simp [h]) hd2 hl2
    intro i3 hd3 hl3
    apply odec_gid (lt64_of_lt32 hwf.gid) (by intro h; simp [h]) hd3 hl3
    intro i4 hd4 hl4
    apply odec_size (ofInt64_lt _) (by intro h; simp [h, toInt64_zero]) hd4 hl4
    intro i5 hd5 hl5
    apply odec_mtime (ofInt64_lt _) (by intro h; simp [h, toInt64_zero]) hd5 hl5
    intro i6 hd6 hl6
    apply odec_linkname h63 (Nat.le_refl _) (by intro h; simp [h]) hd6 hl6
    intro i7 hd7 hl7
    apply odec_devmajor (ofInt64_lt _) (by intro h; simp [h, toInt64_zero]) hd7 hl7
    intro i8 hd8 hl8
    apply odec_devminor (ofInt64_lt _) (by intro h; simp [h, toInt64_zero]) hd8 hl8
    intro i9 hd9 hl9
    have hx := dec_xattrs d d.size h63 (Nat.le_refl _) s.xattrs i9
      { path := s.path, mode := s.mode % two32, uid := s.uid % two32, gid := s.gid % two32,
        size := toInt64 (ofInt64 s.size), mtime := toInt64 (ofInt64 s.mtime), linkname := s.linkname,
        devmajor := toInt64 (ofInt64 s.devmajor), devminor := toInt64 (ofInt64 s.devminor) }
      hd9 hl9 (by intro kv _ e he; simp at he) hwf.keys
    have hfin : ({ ({ path := s.path, mode := s.mode % two32, uid := s.uid % two32, gid := s.gid % two32,
                      size := toInt64 (ofInt64 s.size), mtime := toInt64 (ofInt64 s.mtime), linkname := s.linkname,
                      devmajor := toInt64 (ofInt64 s.devmajor), devminor := toInt64 (ofInt64 s.devminor) } : PStat)
                    with xattrs := [] ++ s.xattrs } : PStat) = s := by
      obtain ⟨h1, h2, h3, h4, h5, h6, h7, _, h9⟩ := hwf
      cases s
      simp only at h1 h2 h3 h4 h5 h6 h7 h9
      simp [Nat.mod_eq_of_lt h1, Nat.mod_eq_of_lt h2, Nat.mod_eq_of_lt h3, toInt64_ofInt64 _ h4.1 h4.2,
        toInt64_ofInt64 _ h5.1 h5.2, toInt64_ofInt64 _ h6.1 h6.2, toInt64_ofInt64 _ h7.1 h7.2, h9]
    rw [hfin] at hx
    exact hx
  exact main (d.size + 1) (by omega)

/-- **Round trip of the Stat codec**: the transcribed decoder applied to the transcribed encoder's output returns the value -/
theorem stat_roundtrip (s : PStat) (hwf : s.WF) (hlen : (marshalStat s).length < two63) :
    unmarshalStat (marshalStat s) = .ok s := by
  unfold unmarshalStat
  have hat : At (marshalStat s).toArray 0 (marshalStat s) := by
    have := At.of_append [] (marshalStat s) []
    simpa using this
  exact stat_roundtrip_buf s hwf _ hat (by simp) (by simpa using hlen)

end Fsm.W
