/-! Spike: soundness of the include-side directory pruning of filter.go,
    over an abstract per-pattern match predicate. -/
namespace Fsm.Pr

abbrev Path := List Nat

structure Pat where
  neg : Bool
  m : Path → Bool

/-- one pass of MatchesUsingParentResults with non-empty parent info:
    returns the per-pattern results and the verdict.  `go` carries the running `matched` flag. -/
def go : List Pat → List Bool → Path → Bool → Bool × List Bool
  | [], _, _, matched => (matched, [])
  | p :: ps, I, x, matched =>
    let pm := I.headD false
    let mt := if pm then true else if p.neg != matched then false else p.m x
    let matched' := if mt then !p.neg else matched
    let (v, rest) := go ps I.tail x matched'
    (v, mt :: rest)

def upr (ps : List Pat) (I : List Bool) (x : Path) : Bool × List Bool := go ps I x false

/-- pointwise ≤ on result vectors -/
def Le : List Bool → List Bool → Prop
  | [], [] => True
  | a :: as, b :: bs => (a = true → b = true) ∧ Le as bs
  | _, _ => False

theorem Le_refl : ∀ l, Le l l
  | [] => trivial
  | _ :: as => ⟨id, Le_refl as⟩

/-- result vector has the length of the pattern list -/
theorem go_length : ∀ ps I x mt, (go ps I x mt).2.length = ps.length
  | [], _, _, _ => rfl
  | p :: ps, I, x, mt => by simp [go, go_length ps]

/-- monotone: what the parent matched stays matched -/
theorem go_mono : ∀ ps I x mt, I.length = ps.length → Le I (go ps I x mt).2
  | [], I, _, _, h => by cases I <;> simp_all [go, Le]
  | p :: ps, I, x, mt, h => by
    cases I with
    | nil => simp at h
    | cons a as =>
      simp only [go, List.headD_cons, List.tail_cons]
      refine ⟨?_, go_mono ps as x _ (by simpa using h)⟩
      intro ha; simp [ha]

end Fsm.Pr

namespace Fsm.Pr

/-- head result and next flag, named so that proofs can keep them folded -/
def mtOf (p : Pat) (a : Bool) (x : Path) (f : Bool) : Bool :=
  if a then true else if p.neg != f then false else p.m x
def flagOf (p : Pat) (a : Bool) (x : Path) (f : Bool) : Bool :=
  if mtOf p a x f then !p.neg else f

theorem go_cons (p : Pat) (ps : List Pat) (a : Bool) (as : List Bool) (x : Path) (f : Bool) :
    go (p :: ps) (a :: as) x f =
      ((go ps as x (flagOf p a x f)).1, mtOf p a x f :: (go ps as x (flagOf p a x f)).2) := by
  simp [go, mtOf, flagOf]

/-- what a descendant may have matched, relative to the run at `d`:
    either `d` matched it too, or it is a negation, or the pattern also matches `d` itself -/
def Rel (d : Path) : List Pat → List Bool → List Bool → Prop
  | [], [], [] => True
  | p :: ps, a :: as, b :: bs => (b = true → a = true ∨ p.neg = true ∨ p.m d = true) ∧ Rel d ps as bs
  | _, _, _ => False

/-- Core lemma.  Run the matcher at a directory `d` (parent info `Ip`, flag `f`) and at a descendant `q`
    (parent info `Iq` coming from somewhere below `d`, flag `g`).  If
    * everything `d` matched is matched in `Iq`, and `Iq` is explained by `Rel`,
    * every positive pattern that matches `q` also matches `d` (the semantic prune condition),
    * `g ≤ f`,
    then the verdict at `q` is ≤ the verdict at `d`, and the relations hold again for `q`'s results. -/
theorem go_prune (d q : Path) :
    ∀ (ps : List Pat) (Ip Iq : List Bool) (f g : Bool),
      Ip.length = ps.length → Iq.length = ps.length →
      Le (go ps Ip d f).2 Iq → Rel d ps (go ps Ip d f).2 Iq →
      (∀ p ∈ ps, p.neg = false → p.m q = true → p.m d = true) →
      (g = true → f = true) →
      ((go ps Iq q g).1 = true → (go ps Ip d f).1 = true) ∧
      Le (go ps Ip d f).2 (go ps Iq q g).2 ∧ Rel d ps (go ps Ip d f).2 (go ps Iq q g).2 := by
  intro ps
  induction ps with
  | nil =>
    intro Ip Iq f g h1 h2 _ _ _ hK
    cases Ip <;> cases Iq <;> simp_all [go, Le, Rel]
  | cons p ps ih =>
    intro Ip Iq f g h1 h2 hLe hRel hS hK
    cases Ip with
    | nil => simp at h1
    | cons a as =>
    cases Iq with
    | nil => simp at h2
    | cons b bs =>
      rw [go_cons] at hLe hRel
      rw [go_cons, go_cons]
      obtain ⟨hLe0, hLeT⟩ := hLe
      obtain ⟨hRel0, hRelT⟩ := hRel
      have hSt : ∀ p' ∈ ps, p'.neg = false → p'.m q = true → p'.m d = true :=
        fun p' hp' => hS p' (by simp [hp'])
      have hq_of_b : b = true → mtOf p b q g = true := by intro hb; simp [mtOf, hb]
      -- a positive pattern matched below d (now or earlier) also matches d itself
      have hmdd : mtOf p b q g = true → mtOf p a d f = false → p.neg = false → p.m d = true := by
        intro hmq hmd hpos
        by_cases hb : b = true
        · rcases hRel0 hb with h | h | h
          · rw [hmd] at h; cases h
          · rw [hpos] at h; cases h
          · exact h
        · simp only [mtOf, hb] at hmq
          by_cases hsk : (p.neg != g) = true
          · simp [hsk] at hmq
          · simp [hsk] at hmq; exact hS p (by simp) hpos hmq
      -- … hence d skipped it, hence the flag at d was already true
      have hskip : mtOf p a d f = false → p.neg = false → p.m d = true → f = true := by
        intro hmd hpos hm
        cases a <;> cases f <;> simp_all [mtOf]
      have hK' : flagOf p b q g = true → flagOf p a d f = true := by
        intro hg'
        simp only [flagOf] at hg' ⊢
        by_cases hmdt : mtOf p a d f = true
        · have hmqt := hq_of_b (hLe0 hmdt)
          simp [hmdt, hmqt] at hg' ⊢; exact hg'
        · have hmdf : mtOf p a d f = false := by simpa using hmdt
          simp only [hmdf]
          by_cases hmqt : mtOf p b q g = true
          · simp [hmqt] at hg'
            have hpos : p.neg = false := hg'
            simpa using hskip hmdf hpos (hmdd hmqt hmdf hpos)
          · have hmqf : mtOf p b q g = false := by simpa using hmqt
            simp [hmqf] at hg'; simpa using hK hg'
      have hlen1 : as.length = ps.length := by simpa using h1
      have hlen2 : bs.length = ps.length := by simpa using h2
      obtain ⟨r1, r2, r3⟩ := ih as bs (flagOf p a d f) (flagOf p b q g) hlen1 hlen2 hLeT hRelT hSt hK'
      refine ⟨r1, ⟨fun h => hq_of_b (hLe0 h), r2⟩, ⟨?_, r3⟩⟩
      intro hmqt
      by_cases hmdt : mtOf p a d f = true
      · left; exact hmdt
      · have hmdf : mtOf p a d f = false := by simpa using hmdt
        by_cases hneg : p.neg = true
        · right; left; exact hneg
        · right; right; exact hmdd hmqt hmdf (by simpa using hneg)

end Fsm.Pr

namespace Fsm.Pr

/-- Pruning theorem (include side).  Let `d` be a directory evaluated with parent info `Ip`,
    verdict `false`.  If every positive pattern that matches some path `q` (from a given set `Below`
    closed under "being evaluated below d") also matches `d`, then every chain of descendants of `d`
    evaluated with parent results keeps verdict `false`: nothing below `d` is ever reported, so
    returning `SkipDir` at `d` is unobservable. -/
theorem prune_sound (ps : List Pat) (Ip : List Bool) (d : Path) (hIp : Ip.length = ps.length)
    (hv : (upr ps Ip d).1 = false)
    (Below : Path → Prop)
    (hS : ∀ q, Below q → ∀ p ∈ ps, p.neg = false → p.m q = true → p.m d = true) :
    ∀ (chain : List Path), (∀ q ∈ chain, Below q) →
      ∀ (Iq : List Bool), Iq.length = ps.length →
        Le (upr ps Ip d).2 Iq → Rel d ps (upr ps Ip d).2 Iq →
        ∀ q ∈ chain, True →
          -- evaluate the chain top-down, threading the parent info
          (chain.foldl (fun (acc : List Bool × Bool) x =>
              let r := upr ps acc.1 x; (r.2, acc.2 || r.1)) (Iq, false)).2 = false := by
  intro chain
  induction chain with
  | nil => intro _ Iq _ _ _ q hq; simp at hq
  | cons x xs ih =>
    intro hB Iq hIq hLe hRel q _ _
    simp only [List.foldl_cons]
    have hx := hB x (by simp)
    obtain ⟨r1, r2, r3⟩ := go_prune d x ps Ip Iq false false hIp hIq hLe hRel (hS x hx) (fun h => h)
    have hvx : (upr ps Iq x).1 = false := by
      cases h : (upr ps Iq x).1 with
      | false => rfl
      | true => have := r1 h; rw [upr] at hv; rw [hv] at this; cases this
    simp only [hvx, Bool.or_false]
    cases xs with
    | nil => simp
    | cons y ys =>
      have hlen : (upr ps Iq x).2.length = ps.length := go_length ps Iq x false
      exact ih (fun z hz => hB z (by simp [hz])) _ hlen r2 r3 y (by simp) trivial

end Fsm.Pr
