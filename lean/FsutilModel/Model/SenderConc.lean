/-! Concrete (blocking) model of the sender's goroutines for the liveness half of C04: the walker, `n` workers reading
the request queue (capacity `cap`), the receive loop that pushes requests into it. A thread's step is `none` while it is
blocked. `fixed = false` is the code as it stood: the push into the queue is an unconditional channel send. -/
namespace Fsm.SC

inductive WPc
  | idle                    -- `for h := range sendpipeline`
  | sending (k : Nat)       -- has a handle: k stream calls left (data chunks + terminator)
  | exited
deriving Repr, DecidableEq

inductive RPc
  | recv                    -- top of the loop: check ctx, RecvMsg
  | push (h : Nat)          -- `queue(id)`: sending the handle into the pipeline
  | exited
deriving Repr, DecidableEq

inductive KPc
  | walking (left : Nat)    -- STATs (and the end marker) still to send
  | exited
deriving Repr, DecidableEq

structure St where
  walker : KPc
  workers : List WPc
  queue : List Nat
  closed : Bool             -- the receive loop closes the pipeline when it exits
  recv : RPc
  cancelled : Bool          -- errgroup context cancelled (some goroutine returned an error)
  torn : Bool               -- the stream is torn down: every pending and later stream call fails
deriving Repr

inductive Tid | walker | worker (i : Nat) | recv
deriving Repr, DecidableEq

/-- what the environment may deliver to a RecvMsg while the stream is up -/
inductive Env | req (h : Nat) | fin | fail
deriving Repr

def setW (ws : List WPc) (i : Nat) (w : WPc) : List WPc := ws.set i w

/-- one step of one thread; `none` = blocked or finished -/
def step (fixed : Bool) (cap : Nat) (s : St) (t : Tid) (env : Env) : Option St :=
  match t with
  | .walker =>
    match s.walker with
    | .exited => none
    | .walking k =>
      if s.cancelled then some { s with walker := .exited }           -- Walk callback sees ctx.Done
      else if s.torn then some { s with walker := .exited, cancelled := true }   -- SendMsg fails
      else if k = 0 then some { s with walker := .exited }
      else some { s with walker := .walking (k - 1) }
  | .worker i =>
    match s.workers[i]? with
    | none => none
    | some .exited => none
    | some .idle =>
      match s.queue with
      | h :: rest =>
        if s.cancelled then some { s with queue := rest, workers := setW s.workers i .exited }
        else some { s with queue := rest, workers := setW s.workers i (.sending (h + 1)) }
      | [] => if s.closed then some { s with workers := setW s.workers i .exited } else none   -- blocked on the empty pipeline
    | some (.sending k) =>
      if s.torn then some { s with workers := setW s.workers i .exited, cancelled := true }    -- SendMsg fails
      else if k ≤ 1 then some { s with workers := setW s.workers i .idle }
      else some { s with workers := setW s.workers i (.sending (k - 1)) }
  | .recv =>
    match s.recv with
    | .exited => none
    | .recv =>
      if s.cancelled then some { s with recv := .exited, closed := true }
      else if s.torn then some { s with recv := .exited, closed := true, cancelled := true }   -- RecvMsg fails
      else match env with
        | .req h => some { s with recv := .push h }
        | .fin => some { s with recv := .exited, closed := true }
        | .fail => some { s with recv := .exited, closed := true, cancelled := true }
    | .push h =>
      if s.queue.length < cap then some { s with queue := s.queue ++ [h], recv := .recv }
      else if fixed && s.cancelled then some { s with recv := .exited, closed := true }       -- select on ctx.Done()
      else none                                                                                 -- blocked on the full pipeline

def allDone (s : St) : Bool :=
  s.walker == .exited && s.workers.all (· == .exited) && s.recv == .exited

/-- structural invariant of reachable states -/
structure WF (s : St) : Prop where
  closedOfExit : s.recv = .exited → s.closed = true
  exitOfClosed : s.closed = true → s.recv = .exited
  workerExit : ∀ w ∈ s.workers, w = .exited → s.cancelled = true ∨ s.closed = true

def wW : WPc → Nat
  | .idle => 3
  | .sending _ => 1
  | .exited => 0

def rW : RPc → Nat
  | .recv => 1
  | .push _ => 4
  | .exited => 0

def kW : KPc → Nat
  | .walking _ => 1
  | .exited => 0

/-- the variant: a bound on the number of steps still possible once the stream is torn down -/
def mu (s : St) : Nat :=
  kW s.walker + (s.workers.map wW).sum + rW s.recv + 2 * s.queue.length

end Fsm.SC
