/-! Concrete (blocking) model of the receiver's goroutines for the liveness half of C04: the packet reader `P`
(`RecvMsg` loop → `dynamicWalker.update`), the feeder `F` (`dynamicWalker.fill`: walkChan → the differ's channel), the
differ goroutine `D` (consumer loop of `doubleWalkDiff`, then `DiskWriter.Wait`, then FIN) and the asynchronous file
writers. A thread's step is `none` while it is blocked. `fixed = false` is a receiver whose feeder leaves without closing
`closeCh` when the context is cancelled while it is handing an entry to the differ (the shape of seeded change C04-c). -/
namespace Fsm.RC

inductive PPc
  | recv                    -- in RecvMsg
  | upd                     -- in dynamicWalker.update with an entry: select { walkChan <- p ; <-closeCh }
  | exited
deriving Repr, DecidableEq

inductive FPc
  | wait                    -- select { <-walkChan ; <-ctx.Done }
  | push                    -- holds an entry: select { pathC <- p ; <-ctx.Done }
  | exited
deriving Repr, DecidableEq

inductive DPc
  | diff                    -- consumer loop of doubleWalkDiff (nextPath is ctx-aware; HandleChange does not block)
  | wait                    -- DiskWriter.Wait: until the writers are done or the context is cancelled
  | fin                     -- SendMsg(FIN)
  | exited
deriving Repr, DecidableEq

structure St where
  p : PPc
  f : FPc
  d : DPc
  pending : Nat             -- STAT packets the peer will still deliver while the stream is up
  endSent : Bool            -- the end marker was processed (walkChan closed by P)
  wq : Nat                  -- entries in walkChan (capacity capW)
  wclosed : Bool
  cq : Nat                  -- entries in the differ's channel (capacity capC)
  c2closed : Bool           -- closed by the deferred close when F returns
  closeCh : Bool
  writers : Nat             -- asynchronous writers alive (REQ sent, waiting for data or ctx)
  cancelled : Bool          -- errgroup context cancelled (some goroutine returned an error)
  torn : Bool               -- the stream is torn down: every pending and later stream call fails
deriving Repr, DecidableEq

inductive Tid | p | f | d | writer
deriving Repr, DecidableEq

/-- environment / scheduler choices: what RecvMsg delivers, whether a callback fails, which branch of a `select` with
several ready cases is taken (`alt`) -/
inductive Env | stat | endm | fail | alt | req
deriving Repr, DecidableEq

def step (fixed : Bool) (capW capC : Nat) (s : St) (t : Tid) (env : Env) : Option St :=
  match t with
  | .p =>
    match s.p with
    | .exited => none
    | .recv =>
      if s.torn then some { s with p := .exited, cancelled := true }                 -- RecvMsg fails
      else match env with
        | .stat => if s.pending > 0 ∧ !s.endSent then some { s with p := .upd, pending := s.pending - 1 } else none
        | .endm =>
          if s.pending = 0 ∧ !s.endSent then
            (if s.closeCh then some { s with p := .exited, cancelled := true }         -- update(nil): "walker is closed"
             else some { s with wclosed := true, endSent := true })
          else none
        | .fail => some { s with p := .exited, cancelled := true }                   -- ERR packet / validator error
        | _ => none
    | .upd =>
      if s.closeCh then some { s with p := .exited, cancelled := true }              -- "walker is closed"
      else if s.wq < capW then some { s with wq := s.wq + 1, p := .recv }
      else none                                                                        -- blocked: channel full, closeCh open
  | .f =>
    match s.f with
    | .exited => none
    | .wait =>
      if s.cancelled ∧ (env = .alt ∨ (s.wq = 0 ∧ !s.wclosed)) then
        some { s with f := .exited, c2closed := true, closeCh := true }               -- ctx.Done: err set, closeCh closed
      else if s.wq > 0 then some { s with wq := s.wq - 1, f := .push }
      else if s.wclosed then some { s with f := .exited, c2closed := true }            -- walkChan closed and drained
      else none
    | .push =>
      if s.cancelled ∧ (env = .alt ∨ ¬ s.cq < capC) then
        some { s with f := .exited, c2closed := true, closeCh := if fixed then true else s.closeCh }
      else if s.cq < capC then some { s with cq := s.cq + 1, f := .wait }
      else none
  | .d =>
    match s.d with
    | .exited => none
    | .diff =>
      if s.cancelled then some { s with d := .exited }                                 -- nextPath: ctx.Err()
      else if s.cq > 0 then
        (match env with
         | .fail => some { s with cq := s.cq - 1, d := .exited, cancelled := true }    -- HandleChange / notify / hasher error
         | .req => some { s with cq := s.cq - 1, writers := s.writers + 1 }            -- a file that needs content
         | _ => some { s with cq := s.cq - 1 })
      else if s.c2closed then some { s with d := .wait }
      else none
    | .wait =>
      if s.cancelled then some { s with d := .exited }
      else if s.writers = 0 then some { s with d := .fin }
      else none
    | .fin => some { s with d := .exited }                                             -- SendMsg(FIN), error ignored
  | .writer =>
    if s.writers = 0 then none
    else if s.torn then some { s with writers := s.writers - 1, cancelled := true }    -- SendMsg(REQ) fails / pipe closed
    else if s.cancelled then some { s with writers := s.writers - 1 }                  -- Wait(ctx)
    else match env with
      | .stat => some { s with writers := s.writers - 1 }                             -- the data arrived completely
      | _ => none

def allDone (s : St) : Bool :=
  s.p == .exited && s.f == .exited && s.d == .exited && s.writers == 0

def init (pending : Nat) : St :=
  { p := .recv, f := .wait, d := .diff, pending := pending, endSent := false, wq := 0, wclosed := false, cq := 0,
    c2closed := false, closeCh := false, writers := 0, cancelled := false, torn := false }

/-- structural invariant of reachable states (repaired receiver) -/
structure WF (s : St) : Prop where
  fExit : s.f = .exited → s.closeCh = true ∨ (s.wclosed = true ∧ s.wq = 0)
  c2 : s.c2closed = true ↔ s.f = .exited
  pExit : s.p = .exited → s.cancelled = true
  dLeft : s.d ≠ .diff → s.cancelled = true ∨ (s.c2closed = true ∧ s.cq = 0)
  dDone : (s.d = .fin ∨ s.d = .exited) → s.cancelled = true ∨ s.writers = 0
  updOpen : s.p = .upd → s.wclosed = false
  wEnd : s.wclosed = s.endSent

def pW : PPc → Nat
  | .recv => 1 | .upd => 7 | .exited => 0
def fW : FPc → Nat
  | .wait => 1 | .push => 5 | .exited => 0
def dW : DPc → Nat
  | .diff => 3 | .wait => 2 | .fin => 1 | .exited => 0

/-- the variant: a bound on the number of steps still possible -/
def mu (s : St) : Nat :=
  8 * s.pending + pW s.p + 5 * s.wq + fW s.f + 3 * s.cq + dW s.d + 2 * s.writers + (if s.endSent then 0 else 1)

end Fsm.RC
