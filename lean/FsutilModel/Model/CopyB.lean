import FsutilModel.Model.Filter
import FsutilModel.Model.FollowLinks
import FsutilModel.Model.ModeStr
/-! Tree-level reference model of `copy.Copy` (copy/copy.go): where the source lands (basename /
directory-contents / trailing-separator rules), overlay onto existing content, include/exclude
selection with on-demand ancestors, options (chown, mode, utime), hard-link groups, notifications.
Directory mtimes the kernel chooses are `none` ("NOW"). -/
namespace Fsm.C
open P

structure Args where
  src : Path
  dst : Path
  cdc : Bool := false
  follow : Bool := false
  replace : Bool := false
  inc : List Pat := []
  exc : List Pat := []
  chown : Option (Nat × Nat) := none
  mode : Option Nat := none          -- unix bits (0o7777)
  modeStr : Option Path := none      -- symbolic mode (overrides `mode`)
  utime : Option Int := none
deriving Repr

/-- a node of the working destination tree -/
structure Node where
  path : Path
  st : StatE                    -- mode (Go bits), uid, gid, link target, dev numbers, xattrs; size for regular files
  sha : Path := []
  mtime : Option Int            -- none = chosen by the kernel
  grp : Path := []              -- hard-link group leader (destination path), [] = own
  keepIno : Option Nat := none  -- pre-existing, untouched entry: must keep this inode
  permFree : Bool := false      -- permission bits not specified (directories created above the target: subject to the umask)
deriving Repr

inductive Res
  | ok (tree : List Node) (notif : List (Path × Bool))   -- notifications: (path, was a directory)
  | err (why : String)
deriving Repr

/-- a pre-existing destination entry; the mtime of a pre-existing directory is left unspecified (entries may be added below it) -/
def nodeOfSnap (s : Snap) : Node :=
  { path := s.st.path, st := s.st, sha := s.sha, mtime := if s.st.isDir then none else some s.st.mtime, keepIno := some s.ino }

def findN (t : List Node) (p : Path) : Option Node := t.find? (·.path = p)
def removeSub (t : List Node) (p : Path) : List Node := t.filter fun n => !(n.path = p || underB p n.path)
def upsert (t : List Node) (n : Node) : List Node :=
  if t.any (·.path = n.path) then t.map (fun x => if x.path = n.path then n else x) else t ++ [n]

def joinP2 (a b : Path) : Path := if a = [] then b else if b = [] then a else a ++ [47] ++ b

/-- unix mode option → Go permission/special bits -/
def goPermOfUnix (m : Nat) : Nat :=
  (m &&& 511) ||| (if m &&& 2048 != 0 then modeSetuid else 0) ||| (if m &&& 1024 != 0 then modeSetgid else 0) |||
  (if m &&& 512 != 0 then modeSticky else 0)

def permMask : Nat := 511 ||| modeSetuid ||| modeSetgid ||| modeSticky

/-- metadata a copied entry ends up with (copyFileInfo + copyXAttrs) -/
def applyInfo (a : Args) (src : StatE) (existingX : List (Path × Path)) : StatE × Option Int :=
  let (u, g) := a.chown.getD (src.uid, src.gid)
  let mode := if src.isSymlink then src.mode else
    match a.modeStr with
    | some ms => (MS.applyModeStr ms src.mode).getD src.mode
    | none =>
      match a.mode with
      | some m => (src.mode &&& (4294967295 - permMask)) ||| goPermOfUnix m
      | none => src.mode
  let xs := src.xattrs ++ existingX.filter (fun kv => !src.xattrs.any (·.1 = kv.1))
  ({ src with uid := u, gid := g, mode := mode, xattrs := xs }, some (a.utime.getD src.mtime))

/-- directories MkdirAll has to create for `p` (relative to the destination root) -/
def mkdirAll (a : Args) (t : List Node) (p : Path) : Except String (List Node) :=
  let cs := (comps p).filter (· ≠ [])
  let rec go : List Path → Path → List Node → Except String (List Node)
    | [], _, t => .ok t
    | c :: rest, cur, t =>
      let next := joinP2 cur c
      match findN t next with
      | some n => if n.st.isDir then go rest next t else .error "mkdir: not a directory"
      | none =>
        let perm := match a.mode with | some m => goPermOfUnix m &&& 511 | none => 493
        -- a directory made inside a set-group-ID directory gets that directory's group and the bit itself (kernel rule);
        -- MkdirAll changes the owner only when a chown option is given
        let par := findN t cur
        let sg := (par.map fun pn => pn.st.mode &&& modeSetgid != 0).getD false
        let (u, g) := a.chown.getD (0, if sg then (par.map (·.st.gid)).getD 0 else 0)
        let n : Node := { path := next, st := { path := next, mode := modeDir ||| perm ||| (if sg then modeSetgid else 0), uid := u, gid := g, size := 0, mtime := 0,
                                                   linkname := [], devmajor := 0, devminor := 0 }, mtime := a.utime, permFree := true }
        go rest next (t ++ [n])
  go cs [] t

/-- chained parent-result verdict for a path relative to the copied source (as copier.copy threads MatchInfo) -/
def uprChain (ps : List Pat) (rel : Path) : Bool :=
  let pref := parentPrefixes rel ++ [rel]
  (pref.foldl (fun (acc : Bool × List Bool) q => matchesUPR ps q acc.2) (false, [])).1

def included (a : Args) (rel : Path) : Bool :=
  rel = [] || ((a.inc.isEmpty || uprChain a.inc rel) && !( !a.exc.isEmpty && uprChain a.exc rel))

structure St where
  tree : List Node
  notif : List (Path × Bool) := []
  inodes : List (Nat × Path) := []     -- source inode → first destination path
  lazyDone : List Path := []           -- not-included source dirs (rel) already created on demand

/-- one ancestor directory `d` (relative to the copied source) that was not included itself is created on demand -/
def parentStep (a : Args) (srcSub : List Snap) (srcRel dstFinal : Path) (s : St) (d : Path) : Except String St :=
  if included a d || s.lazyDone.contains d then .ok s else
  match srcSub.find? (·.st.path = joinP2 srcRel d) with
  | none => .ok s
  | some sd =>
    let target := joinP2 dstFinal d
    match findN s.tree target with
    | some n =>
      -- an existing directory used as an on-demand ancestor is chmod'ed to the source directory's mode (nothing else)
      if n.st.isDir then .ok { s with tree := upsert s.tree { n with st := { n.st with mode := sd.st.mode }, keepIno := none, mtime := none },
                                       lazyDone := d :: s.lazyDone }
      else .error "cannot copy to non-directory"
    | none =>
      let (st, _) := applyInfo a sd.st []
      .ok { s with tree := s.tree ++ [{ path := target, st := { st with path := target }, mtime := none }], lazyDone := d :: s.lazyDone }

/-- create, on demand, the ancestors (strictly between the copied root and `rel`) that were not included themselves -/
def createParents (a : Args) (srcSub : List Snap) (srcRel dstFinal : Path) (rel : Path) (s : St) : Except String St :=
  (parentPrefixes rel).foldlM (parentStep a srcSub srcRel dstFinal) s

/-- `target` (and what is below it) is replaced: the nodes go; link groups led from there are led by their first remaining member;
repaired (F29, `fixed`): the link sources recorded there are forgotten (unrepaired: they stay, and a later member of such a group
is linked to whatever has taken the path) -/
def dropTargetG (fixed : Bool) (s : St) (target : Path) : St :=
  let gone := fun (p : Path) => p = target || underB target p
  let t := removeSub s.tree target
  let t := t.map fun n =>
    if n.grp ≠ [] && gone n.grp then
      match t.find? (fun m => m.grp = n.grp) with
      | some m => if m.path = n.path then { n with grp := [] } else { n with grp := m.path }
      | none => n
    else n
  { s with tree := t, inodes := if fixed then s.inodes.filter (fun ip => !gone ip.2) else s.inodes }

def dropTarget (s : St) (target : Path) : St := dropTargetG Fix.f29 s target

/-- always-replace: an existing target goes unless directory meets directory -/
def replaceStep (a : Args) (e : Snap) (target : Path) (s : St) : St :=
  match findN s.tree target with
  | some n => if a.replace && !(e.st.isDir && n.st.isDir) then dropTarget s target else s
  | none => s

/-- a source directory arrives at `target` (`top` = it is the copied source itself) -/
def dirStep (a : Args) (e : Snap) (target : Path) (top : Bool) (s : St) : Except String St :=
  match findN s.tree target with
  | none =>
    let (st, mt) := applyInfo a e.st []
    .ok { s with tree := s.tree ++ [{ path := target, st := { st with path := target }, mtime := mt }], notif := s.notif ++ [(target, e.st.isDir)] }
  | some n =>
    if !n.st.isDir then .error "cannot copy to non-directory"
    else if top then
      -- existing top-level target: metadata kept, timestamp set from the source
      .ok { s with tree := upsert s.tree { n with mtime := some (a.utime.getD e.st.mtime), keepIno := none } }
    else
      let (st, mt) := applyInfo a e.st n.st.xattrs
      .ok { s with tree := upsert s.tree { n with st := { st with path := target }, mtime := mt, keepIno := none }, notif := s.notif ++ [(target, e.st.isDir)] }

/-- ensureEmptyFileTarget: what stands at the target of a non-directory goes (a directory is a conflict) -/
def emptyTarget (target : Path) (s : St) : Except String St :=
  match findN s.tree target with
  | some n => if n.st.isDir then .error "cannot replace directory with file" else .ok (dropTarget s target)
  | none => .ok s

/-- the recorded hard-link source of a source entry, if it is a regular file with several links that has been seen before -/
def leaderOf (e : Snap) (s : St) : Option Path :=
  if e.st.isRegular && e.nlink > 1 then (s.inodes.find? (·.1 = e.ino)).map (·.2) else none

/-- a source non-directory is created at `target` (nothing stands there any more) -/
def putFile (a : Args) (e : Snap) (target : Path) (s : St) : Except String St :=
  let (st, mt) := applyInfo a e.st []
  let leader := leaderOf e s
  -- the link source is the path just removed (several sources landing on one non-directory name): os.Link fails
  if leader = some target then .error "failed to create hard link (link source is the target itself)"
  -- ... or a directory by now (a later source of the same call replaced the first member under always-replace): os.Link fails too
  else if (leader.bind (findN s.tree)).any (·.st.isDir) then .error "failed to create hard link (link source is a directory by now)"
  else
    let inodes := if e.st.isRegular && e.nlink > 1 && leader.isNone then (e.ino, target) :: s.inodes else s.inodes
    let node : Node := { path := target, st := { st with path := target }, sha := e.sha, mtime := mt, grp := leader.getD [] }
    -- metadata of a hard link is applied to the shared inode: the group follows the last member copied
    let tree := match leader with
      | some l => s.tree.map fun n => if n.path = l || n.grp = l then { n with st := { st with path := n.path }, mtime := mt } else n
      | none => s.tree
    .ok { s with tree := tree ++ [node], notif := s.notif ++ [(target, false)], inodes := inodes }

/-- one source entry, in walk order; `rel` = path relative to the copied source ("" = the source itself) -/
def copyEntry (a : Args) (srcSub : List Snap) (srcRel dstFinal : Path) (s : St) (e : Snap) : Except String St :=
  let rel := if e.st.path = srcRel then [] else e.st.path.drop (if srcRel = [] then 0 else srcRel.length + 1)
  let target := joinP2 dstFinal rel
  if !included a rel then .ok s else
  (createParents a srcSub srcRel dstFinal rel (replaceStep a e target s)).bind fun s =>
  if e.st.isDir then dirStep a e target (rel = []) s
  else (emptyTarget target s).bind (putFile a e target)

/-- the name a source argument contributes below an existing destination directory (`prepareTargetDir`:
`filepath.Base` of the argument; repaired (F23): of the argument confined to the source root, so that `sub/..`, `..`
denote the root itself). "/" and "." contribute nothing. -/
def landName (fixed : Bool) (srcArg : Path) : Path :=
  let b := if fixed then baseB (clean (sep :: srcArg)) else baseB srcArg
  if b = [47] || b = [dot] then [] else b

/-- does the source land INSIDE the destination path, under its own base name? (prepareTargetDir) -/
def landsInside (cdc srcIsDir destExists destIsDir : Bool) : Bool :=
  (!cdc && srcIsDir && destExists) || (!srcIsDir && destExists && destIsDir)

/-- where the source lands in the destination root (the basename / dir-contents / file-into-directory rule), given the
resolved destination path; `none` = a parent cannot be created -/
def landing (a : Args) (srcIsDir : Bool) (dstTree : List Snap) (dstRel : Path) (dstHasBase : Bool) : Option Path :=
  let rootNode : Node := { path := [], st := { path := [], mode := modeDir ||| 493, uid := 0, gid := 0, size := 0, mtime := 0, linkname := [],
                                                 devmajor := 0, devminor := 0 }, mtime := none }
  let t0 := rootNode :: dstTree.map nodeOfSnap
  let ensure := if dstHasBase then parentOf dstRel else dstRel
  match mkdirAll a t0 ensure with
  | .error _ => none
  | .ok t1 =>
    let dest := (findN t1 dstRel).map (·.st.isDir)
    some (if landsInside a.cdc srcIsDir dest.isSome (dest.getD false)
      then joinP2 dstRel (landName Fix.f23 a.src) else dstRel)

/-- one source (already resolved to `srcRel`, named `srcArg` in the call) copied onto the working tree `t1`
(parents of the destination argument already ensured) -/
def copyOne (a : Args) (srcTree : List Snap) (srcRel srcArg dstRel : Path) (s0 : St) : Except String St :=
  match srcTree.find? (·.st.path = srcRel), srcRel with
  | none, _ :: _ => .error "source does not exist"
  | srcEnt, _ =>
    let srcIsDir := match srcEnt with | some e => e.st.isDir | none => true
    let t1 := s0.tree
    let dest := (findN t1 dstRel).map (·.st.isDir)
    let destExists := dest.isSome
    let destIsDir := dest.getD false
    let dstFinal := if landsInside a.cdc srcIsDir destExists destIsDir
      then joinP2 dstRel (landName Fix.f23 srcArg) else dstRel
    let target := if a.cdc && srcIsDir && !destExists then dstFinal else parentOf dstFinal
    match mkdirAll a t1 target with
    | .error w => .error w
    | .ok t2 =>
      let sub := srcTree.filter fun e => e.st.path = srcRel || srcRel = [] || underB srcRel e.st.path
      -- the source root itself (srcRel = "") has no snapshot entry: a synthetic directory entry stands for it
      let rootEnt : List Snap := if srcRel = [] then
        [{ st := { path := [], mode := modeDir ||| 493, uid := 0, gid := 0, size := 0, mtime := 1500000000000000000, linkname := [],
                   devmajor := 0, devminor := 0 }, ino := 0, nlink := 2 }] else []
      -- a new directory entry in the parent of the landing path changes that parent's mtime; unless the parent was created by
      -- MkdirAll (its time is fixed up at the very end of the call) it is from now on whatever the kernel chose
      -- (a non-directory source replaces what is at the landing path: unlink + create, the same effect on the parent - visible
      -- when an earlier source of the same call created that parent and already set its time)
      let isNew := (findN t2 dstFinal).isNone
      let par := parentOf dstFinal
      -- (a directory source over an existing NON-directory replaces it as well, when the call goes through at all)
      let tgtNonDir := ((findN t2 dstFinal).map fun n => !n.st.isDir).getD false
      let t3 := if (isNew || !srcIsDir || tgtNonDir) && par ≠ [] then t2.map (fun n => if n.path = par then { n with mtime := if n.permFree then a.utime else none } else n) else t2
      (rootEnt ++ sub).foldlM (copyEntry a (rootEnt ++ sub) srcRel dstFinal) { s0 with tree := t3, lazyDone := [] }

/-- the whole call: ensure the destination's parents, then copy every source (one, or the wildcard matches in order) -/
def expectedCopyMulti (a : Args) (srcTree dstTree : List Snap) (srcs : List (Path × Path)) (dstRel : Path) (dstHasBase : Bool)
    (reresolve : List Node → Option Path := fun _ => none) : Res :=
  let rootNode : Node := { path := [], st := { path := [], mode := modeDir ||| 493, uid := 0, gid := 0, size := 0, mtime := 0, linkname := [],
                                                 devmajor := 0, devminor := 0 }, mtime := none }
  let t0 := rootNode :: dstTree.map nodeOfSnap
  let ensure := if dstHasBase then parentOf dstRel else dstRel
  match mkdirAll a t0 ensure with
  | .error w => .err w
  | .ok t1 =>
    -- the destination argument is resolved again (inside the root) for every source after the first
    let step (acc : St × Bool) (sr : Path × Path) : Except String (St × Bool) := do
      let (s, first) := acc
      -- (a destination argument that no longer resolves - an earlier source made it a symlink loop - fails the call)
      let d ← if first then pure dstRel else
        match reresolve s.tree with
        | some d => pure d
        | none => throw "destination path resolution loops"
      let s' ← copyOne a srcTree sr.1 sr.2 d s
      pure (s', false)
    match srcs.foldlM step ({ tree := t1 }, true) with
    | .error w => .err w
    | .ok (s, _) => .ok s.tree s.notif

def expectedCopy (a : Args) (srcTree dstTree : List Snap) (srcRel dstRel : Path) (dstHasBase : Bool) : Res :=
  expectedCopyMulti a srcTree dstTree [(srcRel, a.src)] dstRel dstHasBase

/-- splitWildcards: the literal directory prefix and the pattern from the first wildcard component on -/
def splitWild (src : Path) : Path × Path :=
  let cs := (comps (clean src))
  let rec go : List Path → List Path → List Path × List Path
    | acc, [] => (acc.reverse, [])
    | acc, c :: rest => if FL.containsWildcards c then (acc.reverse, c :: rest) else go (c :: acc) rest
  let (p1, p2) := go [] cs
  (joinSep (p1.map fun c => if c = [] then [47] else c) |> clean, joinSep p2)

/-- resolveWildcards: entries below `base` (walk order) whose path relative to it matches the pattern; a matched directory is not descended into -/
def wildMatches (srcTree : List Snap) (base pat : Path) : List Path :=
  let rec go : List Snap → Option Path → List Path → List Path
    | [], _, acc => acc.reverse
    | e :: rest, skip, acc =>
      let p := e.st.path
      let skipped := match skip with | some d => underB d p | none => false
      if skipped then go rest skip acc
      else if !(base = [] || underB base p) then go rest none acc
      else
        let rel := if base = [] then p else p.drop (base.length + 1)
        if FL.fnMatch pat rel then go rest (if e.st.isDir then some p else none) (p :: acc)
        else go rest none acc
  go srcTree none []

end Fsm.C

namespace Fsm.C

def sameSet (a b : List (Path × Path)) : Bool := a.all (b.contains ·) && b.all (a.contains ·)

/-- compare the destination snapshot after the copy with the expected tree -/
def cmpTree (exp0 : List Node) (after : List Snap) : SpecVerdict := Id.run do
  let exp := exp0.filter (·.path ≠ [])
  for n in exp do
    match after.find? (·.st.path = n.path) with
    | none => return ⟨false, "expected entry missing in the destination"⟩
    | some a =>
      let d := a.st
      let s := n.st
      if n.permFree then
        if d.isDir != s.isDir then return ⟨false, "mode/type differs"⟩
      else if d.mode != s.mode then return ⟨false, "mode/type differs"⟩
      if d.uid != s.uid || d.gid != s.gid then return ⟨false, "owner differs"⟩
      if s.isSymlink && d.linkname != s.linkname then return ⟨false, "symlink target differs"⟩
      if s.isRegular && a.sha != n.sha then return ⟨false, "file bytes differ"⟩
      if !s.isDir && !s.isSymlink && (d.devmajor != s.devmajor || d.devminor != s.devminor) then return ⟨false, "device numbers differ"⟩
      if !sameSet d.xattrs s.xattrs then return ⟨false, "xattrs differ"⟩
      match n.mtime with
      | some t => if d.mtime != t then return ⟨false, "mtime differs"⟩
      | none => pure ()
      match n.keepIno with
      | some i => if a.ino != i then return ⟨false, "an unrelated existing entry was replaced"⟩
      | none => pure ()
  for a in after do
    if !(exp.any (·.path = a.st.path)) then return ⟨false, "destination has an entry that should not be there"⟩
  -- hard-link groups of copied regular files
  let gi : List (Path × Nat) := exp.filterMap fun n =>
    if n.st.isRegular && n.keepIno.isNone then (after.find? (·.st.path = n.path)).map fun a => (if n.grp = [] then n.path else n.grp, a.ino) else none
  for x in gi do
    for y in gi do
      if (x.1 == y.1) != (x.2 == y.2) then return ⟨false, "hard-link groups differ"⟩
  return ⟨true, ""⟩

end Fsm.C
