import FsutilModel.Model.PathFn
import FsutilModel.Model.Fixes
/-! moby/patternmatcher as fsutil uses it, for the declared pattern fragment
(literals, `*`, `?`, `**`, simple character classes, `\`-escaped metacharacters, `!` negation):
the translation to a regular expression incl. the exact/prefix/suffix shortcuts, matching on runes,
`MatchesOrParentMatches` and `MatchesUsingParentResults`. -/
namespace Fsm.P

/-- Go's UTF-8 decoding of a byte string into runes (an invalid byte is one rune U+FFFD) -/
def decodeRunes : Nat → List Nat → List Nat
  | 0, _ => []
  | _, [] => []
  | fuel+1, b :: rest =>
    let cont (x : Nat) := 128 ≤ x ∧ x < 192
    if b < 128 then b :: decodeRunes fuel rest
    else if 194 ≤ b ∧ b < 224 then
      match rest with
      | c1 :: r => if cont c1 then ((b - 192) * 64 + (c1 - 128)) :: decodeRunes fuel r else 65533 :: decodeRunes fuel rest
      | [] => [65533]
    else if 224 ≤ b ∧ b < 240 then
      match rest with
      | c1 :: c2 :: r =>
        let lo := if b = 224 then 160 else 128
        let hi := if b = 237 then 159 else 191
        if lo ≤ c1 ∧ c1 ≤ hi ∧ cont c2 then ((b - 224) * 4096 + (c1 - 128) * 64 + (c2 - 128)) :: decodeRunes fuel r
        else 65533 :: decodeRunes fuel rest
      | _ => 65533 :: decodeRunes fuel rest
    else if 240 ≤ b ∧ b < 245 then
      match rest with
      | c1 :: c2 :: c3 :: r =>
        let lo := if b = 240 then 144 else 128
        let hi := if b = 244 then 143 else 191
        if lo ≤ c1 ∧ c1 ≤ hi ∧ cont c2 ∧ cont c3 then
          ((b - 240) * 262144 + (c1 - 128) * 4096 + (c2 - 128) * 64 + (c3 - 128)) :: decodeRunes fuel r
        else 65533 :: decodeRunes fuel rest
      | _ => 65533 :: decodeRunes fuel rest
    else 65533 :: decodeRunes fuel rest

def runes (s : List Nat) : List Nat := decodeRunes (s.length + 1) s

inductive Tok
  | lit (c : Nat)                 -- one rune
  | anyNoSep                      -- `?`  → [^/]
  | starNoSep                     -- `*`  → [^/]*
  | dstarSlash                    -- `**/`, `**x` → (.*/)?
  | dotStar                       -- trailing `**` → .*
  | cls (neg : Bool) (ranges : List (Nat × Nat))
deriving Repr, DecidableEq

inductive MT | exact | prefix_ | suffix_ | regexp
deriving Repr, DecidableEq

structure Pat where
  neg : Bool
  text : List Nat          -- cleanedPattern (bytes), without '!'
  mt : MT
  toks : List Tok
deriving Repr

/-- parse a character class body after '[' (runes); returns (neg, ranges, rest after ']') -/
def parseClass : Nat → List Nat → Bool → List (Nat × Nat) → Option (Bool × List (Nat × Nat) × List Nat)
  | 0, _, _, _ => none
  | _, [], _, _ => none
  | fuel+1, c :: rest, neg, acc =>
    if c = 93 ∧ !acc.isEmpty then some (neg, acc.reverse, rest)   -- ']'
    else
      match rest with
      | 45 :: hi :: rest' => if hi ≠ 93 then parseClass fuel rest' neg ((c, hi) :: acc) else parseClass fuel rest neg ((c, c) :: acc)
      | _ => parseClass fuel rest neg ((c, c) :: acc)

/-- Pattern.compile, on the runes of the cleaned pattern -/
def compileLoop : Nat → Nat → List Nat → MT → List Tok → Option (MT × List Tok)
  | 0, _, _, mt, acc => some (mt, acc.reverse)
  | _, _, [], mt, acc => some (mt, acc.reverse)
  | fuel+1, i, ch :: rest, mt, acc =>
    if ch = 42 then   -- '*'
      match rest with
      | 42 :: rest1 =>
        let rest2 := match rest1 with | 47 :: r => r | _ => rest1
        let (mt1, acc1) :=
          if rest2.isEmpty then
            (if mt = .exact then (MT.prefix_, acc) else (MT.regexp, Tok.dotStar :: acc))
          else (MT.regexp, Tok.dstarSlash :: acc)
        let mt2 := if i = 0 then MT.suffix_ else mt1
        compileLoop fuel (i+1) rest2 mt2 acc1
      | _ => compileLoop fuel (i+1) rest .regexp (Tok.starNoSep :: acc)
    else if ch = 63 then compileLoop fuel (i+1) rest .regexp (Tok.anyNoSep :: acc)
    else if ch = 92 then   -- backslash: escape next
      match rest with
      | c :: rest1 => compileLoop fuel (i+1) rest1 .regexp (Tok.lit c :: acc)
      | [] => compileLoop fuel (i+1) [] mt (Tok.lit 92 :: acc)
    else if ch = 91 then   -- '['
      let (neg, body) := match rest with | 94 :: r => (true, r) | _ => (false, rest)
      match parseClass (body.length + 1) body neg [] with
      | some (n, rs, rest1) => compileLoop fuel (i+1) rest1 .regexp (Tok.cls n rs :: acc)
      | none => none
    else if ch = 93 then none
    else compileLoop fuel (i+1) rest mt (Tok.lit ch :: acc)

def isSpace (b : Nat) : Bool := b = 32 || b = 9 || b = 10 || b = 11 || b = 12 || b = 13 || b = 133 || b = 160

def trimSpace (s : List Nat) : List Nat :=
  ((s.dropWhile isSpace).reverse.dropWhile isSpace).reverse

/-- patternmatcher.New for one pattern string; `none` = skipped (empty) -/
def parsePattern (s : List Nat) : Option Pat :=
  let p := trimSpace s
  if p.isEmpty then none else
  let p := clean p
  let (neg, p) := match p with | 33 :: r => (true, r) | _ => (false, p)
  let rs := runes p
  match compileLoop (rs.length + 1) 0 rs .exact [] with
  | some (mt, toks) => some ⟨neg, p, mt, toks⟩
  | none => some ⟨neg, p, .exact, []⟩

/-- patternmatcher.New rejects the whole list when a pattern is, after trimming and cleaning, a lone `!` -/
def illegalBang (s : List Nat) : Bool :=
  let p := trimSpace s
  !p.isEmpty && clean p == [33]

def parsePatterns (ss : List (List Nat)) : List Pat := ss.filterMap parsePattern

def clsMatch (neg : Bool) (rs : List (Nat × Nat)) (c : Nat) : Bool :=
  let inside := rs.any fun (lo, hi) => lo ≤ c && c ≤ hi
  if neg then !inside else inside

/-- anchored regexp match of the token list against a rune list (backtracking; fuel bounds the search) -/
def reMatch : Nat → List Tok → List Nat → Bool
  | 0, _, _ => false
  | _, [], s => s.isEmpty
  | fuel+1, t :: ts, s =>
    match t with
    | .lit c => (match s with | x :: r => x = c && reMatch fuel ts r | [] => false)
    | .anyNoSep => (match s with | x :: r => x ≠ 47 && reMatch fuel ts r | [] => false)
    | .cls n rs => (match s with | x :: r => clsMatch n rs x && reMatch fuel ts r | [] => false)
    | .starNoSep =>
      reMatch fuel ts s || (match s with | x :: r => x ≠ 47 && reMatch fuel (t :: ts) r | [] => false)
    | .dotStar =>
      reMatch fuel ts s || (match s with | x :: r => x ≠ 10 && reMatch fuel (t :: ts) r | [] => false)
    | .dstarSlash =>
      -- (.*/)? : nothing, or any prefix (without newline) that ends in '/'
      reMatch fuel ts s ||
      (let rec tryFrom : Nat → List Nat → Bool
        | 0, _ => false
        | _, [] => false
        | f+1, x :: r => (x = 47 && reMatch fuel ts r) || (x ≠ 10 && tryFrom f r)
       tryFrom (s.length + 1) s)

def isSuffixOf (suf s : List Nat) : Bool := suf.reverse.isPrefixOf s.reverse

/-- Pattern.match -/
def patMatch (p : Pat) (path : List Nat) : Bool :=
  match p.mt with
  | .exact => path = p.text
  | .prefix_ => (p.text.take (p.text.length - 2)).isPrefixOf path
  | .suffix_ =>
    let suffix := p.text.drop 2
    isSuffixOf suffix path || (suffix.head? = some 47 && path = suffix.drop 1)
  | .regexp =>
    let rs := runes path
    reMatch ((rs.length + 2) * (p.toks.length + 2) * 4 + 16) p.toks rs

/-- prefixes "a", "a/b", … of the parent directory of `path` -/
def parentPrefixes (path : List Nat) : List (List Nat) :=
  let d := dirB path
  if d = [dot] then [] else
  let cs := comps d
  (List.range cs.length).map fun i => joinSep (cs.take (i+1))

/-- MatchesOrParentMatches -/
def matchesOrParent (ps : List Pat) (path : List Nat) : Bool :=
  ps.foldl (fun matched p =>
    if p.neg != matched then matched else
    let m := patMatch p path || (parentPrefixes path).any (patMatch p)
    if m then !p.neg else matched) false

/-- MatchesUsingParentResults: returns (matched, matchInfo); `parent = []` is the zero MatchInfo -/
def matchesUPR (ps : List Pat) (path : List Nat) (parent : List Bool) : Bool × List Bool :=
  let rec go : List Pat → List Bool → Bool → List Bool → Bool × List Bool
    | [], _, matched, acc => (matched, acc.reverse)
    | p :: rest, par, matched, acc =>
      let pm := match par with | b :: _ => b | [] => false
      let par' := par.drop 1
      if pm then go rest par' (!p.neg) (true :: acc)
      else if p.neg != matched then go rest par' matched (false :: acc)
      else
        let m := patMatch p path || (parent.isEmpty && (parentPrefixes path).any (patMatch p))
        go rest par' (if m then !p.neg else matched) (m :: acc)
  go ps parent false []

end Fsm.P
