import FsutilModel.Sender
import FsutilModel.Model.DiffB
/-! Acceptor for the sender side of the wire protocol (C06): replays a boundary-event log of a real
`Send` run through the abstract sender LTS `Fsm.S` (whose invariant is proved in `Sender.lean`) and
checks the remaining clauses of the property (FIN echo, failure on bad ids, completion). -/
namespace Fsm.SP
open S

/-- boundary events at the sender's end of the stream, in the order they happened -/
inductive LEv
  | sStat                 -- SendMsg(STAT with stat)
  | sEnd                  -- SendMsg(STAT without stat)
  | rReq (id : Nat)       -- RecvMsg delivered REQ id
  | sData (id n : Nat)    -- SendMsg(DATA id, n bytes), n > 0
  | sTerm (id : Nat)      -- SendMsg(DATA id, empty)
  | rFin                  -- RecvMsg delivered FIN
  | sFin                  -- SendMsg(FIN)
  | sErr                  -- SendMsg(ERR)
  | ret (ok : Bool)       -- Send returned
deriving Repr

structure Acc where
  s : S.St
  finRecv : Bool := false
  finSent : Bool := false
  returned : Option Bool := none
  reqs : List Nat := []

structure Verdict where
  ok : Bool
  at_ : Nat
  why : String

/-- open the file first if the id is merely queued (the `Open` call is not a stream event) -/
def ensureOpen (s : S.St) (id : Nat) : S.St :=
  match s.phase id with
  | .queued => (S.step s (.open_ id)).getD s
  | _ => s

def accStep (a : Acc) : LEv → Except String Acc
  | .ret ok =>
    if a.returned.isSome then .error "returned twice" else
    if ok then
      if !(a.finRecv && a.finSent) then .error "success without FIN exchange"
      else if a.s.failed then .error "success although an invalid id was requested"
      else if a.reqs.any (fun id => a.s.phase id != .finished) then .error "success although a requested file was not sent completely"
      else .ok { a with returned := some true }
    else .ok { a with returned := some false }
  | e =>
  -- once an invalid request arrived the call is failing: what its other threads still send until they
  -- notice the cancellation is not constrained by the property
  if a.s.failed then .ok a else
  match e with
  | .ret _ => .ok a
  | .sStat => match S.step a.s .sendStat with
    | some s' => .ok { a with s := s' }
    | none => .error "STAT beyond the view / after failure"
  | .sEnd => match S.step a.s .sendEnd with
    | some s' => .ok { a with s := s' }
    | none => .error "end marker out of place (before the last STAT, or twice)"
  | .rReq id => match S.step a.s (.recvReq id) with
    | some s' => .ok { a with s := s', reqs := a.reqs ++ [id] }
    | none => .error "REQ not enabled"
  | .sData id n =>
    let s1 := ensureOpen a.s id
    match S.step s1 (.data id n) with
    | some s' => .ok { a with s := s' }
    | none => .error s!"DATA for id {id} not enabled (not requested, not a regular entry, beyond the file, or after the terminator)"
  | .sTerm id =>
    let s1 := ensureOpen a.s id
    match S.step s1 (.term id) with
    | some s' => .ok { a with s := s' }
    | none => .error s!"terminator for id {id} not enabled (file incomplete, second terminator, or not requested)"
  | .rFin => .ok { a with finRecv := true }
  | .sFin => if a.finRecv && !a.finSent then .ok { a with finSent := true } else .error "FIN sent without / twice after a received FIN"
  | .sErr => .ok a

def accRun (a : Acc) (i : Nat) : List LEv → Verdict × Acc
  | [] => (⟨true, i, ""⟩, a)
  | e :: es => match accStep a e with
    | .ok a' => accRun a' (i+1) es
    | .error w => (⟨false, i, w⟩, a)

/-- `view`: per STAT index (regular?, size).  `expectFail`: the request script contains an id that is
unknown, not a regular file, or a duplicate. -/
def accept (view : List (Bool × Nat)) (log : List LEv) : Verdict :=
  let v := view.map fun (r, n) => (r, List.replicate n 0)
  let (vd, a) := accRun { s := S.init v } 0 log
  if !vd.ok then vd else
  match a.returned with
  | none => ⟨false, log.length, "Send did not return"⟩
  | some true => ⟨true, log.length, ""⟩
  | some false =>
    -- an error return is conforming only if the receiver misbehaved (bad request)
    if a.s.failed then ⟨true, log.length, ""⟩ else ⟨false, log.length, "Send failed against a conforming receiver"⟩

end Fsm.SP
