import FsutilModel.ByteOrd
import FsutilModel.Diff
/-! Stat-level instance of the diff model: `doubleWalkDiff` + `sameFile`/`compareStat`
(diff_containerd.go) over byte paths, and the executable reference specification used as
the oracle for C01/C02/C05 at listing level. -/
namespace Fsm

structure StatE where
  path : Path
  mode : Nat          -- Go os.FileMode bits (uint32)
  uid : Nat
  gid : Nat
  size : Int
  mtime : Int         -- ns
  linkname : Path
  devmajor : Int
  devminor : Int
  xattrs : List (Path × Path) := []   -- sorted by key; not part of the identity
deriving DecidableEq, Repr

def modeDir : Nat := 2147483648      -- os.ModeDir = 1<<31
def modeSymlink : Nat := 134217728   -- os.ModeSymlink = 1<<27
def modeNamedPipe : Nat := 33554432  -- 1<<25
def modeSocket : Nat := 16777216     -- 1<<24
def modeDevice : Nat := 67108864     -- 1<<26
def modeCharDevice : Nat := 2097152  -- 1<<21
def modeSetuid : Nat := 8388608      -- 1<<23
def modeSetgid : Nat := 4194304      -- 1<<22
def modeSticky : Nat := 1048576      -- 1<<20
def modeIrregular : Nat := 524288    -- 1<<19
def modeType : Nat := modeDir ||| modeSymlink ||| modeNamedPipe ||| modeSocket ||| modeDevice ||| modeCharDevice ||| modeIrregular

def StatE.isDir (s : StatE) : Bool := s.mode &&& modeDir != 0
def StatE.isRegular (s : StatE) : Bool := s.mode &&& modeType == 0
def StatE.isSymlink (s : StatE) : Bool := s.mode &&& modeSymlink != 0

/-- what `sameFile` (differ = metadata) compares -/
structure Ident where
  mode : Nat
  uid : Nat
  gid : Nat
  devmajor : Int
  devminor : Int
  linkname : Path
  sizeMtime : Option (Int × Int)     -- none for directories
deriving DecidableEq, Repr

def StatE.ident (s : StatE) : Ident :=
  ⟨s.mode, s.uid, s.gid, s.devmajor, s.devminor, s.linkname, if s.isDir then none else some (s.size, s.mtime)⟩

/-- sameFile + compareStat, verbatim (differ = DiffMetadata) -/
def sameFileB (a b : StatE) : Bool :=
  (a.isDir || (a.size == b.size && a.mtime == b.mtime)) &&
  (a.mode == b.mode && a.uid == b.uid && a.gid == b.gid && a.devmajor == b.devmajor &&
   a.devminor == b.devminor && a.linkname == b.linkname)

abbrev BEnt := D.Ent Path Ident
abbrev BEv := D.Ev Path Ident

def StatE.toEnt (s : StatE) : BEnt := ⟨s.path, s.isDir, s.ident⟩

/-- the executable diff on stat listings (`none` differ = every co-present path is modified) -/
def diffB (differNone : Bool) (lower upper : List StatE) : List BEv :=
  D.diff byteOrd differNone (lower.length + upper.length + 1) (lower.map StatE.toEnt) (upper.map StatE.toEnt) none

/-! ## Executable reference specification (listing level)

`specDiff` says, in the property's words, which change events a transfer from the old destination
listing `lower` to the source listing `upper` must consist of. -/

def underP (d q : Path) : Bool := underB d q

def findP (xs : List BEnt) (p : Path) : Option BEnt := xs.find? (·.path = p)

/-- is `p` (only in lower) already covered by the removal of an ancestor: an ancestor that is only in
lower as well, or an ancestor directory that is replaced by a non-directory -/
def coveredByAncestor (lower upper : List BEnt) (p : Path) : Bool :=
  lower.any fun a => underP a.path p &&
    (match findP upper a.path with
     | none => true
     | some u => a.isDir && !u.isDir)

structure SpecVerdict where
  ok : Bool
  why : String

/-- the property's statement about the event list `evs` emitted for (lower, upper) -/
def specDiff (differNone : Bool) (lower upper : List BEnt) (evs : List BEv) : SpecVerdict := Id.run do
  -- every event is justified
  for ev in evs do
    match ev with
    | .add e =>
      if (findP lower e.path).isSome then return ⟨false, "add for a path that exists in the old tree"⟩
      if findP upper e.path != some e then return ⟨false, "add does not carry the source entry"⟩
    | .modify e =>
      match findP lower e.path with
      | none => return ⟨false, "modify for a path that is not in the old tree"⟩
      | some l =>
        if findP upper e.path != some e then return ⟨false, "modify does not carry the source entry"⟩
        if !differNone && D.same l e then return ⟨false, "modify for an unchanged entry"⟩
    | .delete p =>
      if (findP lower p).isNone then return ⟨false, "delete for a path that is not in the old tree"⟩
      if (findP upper p).isSome then return ⟨false, "delete for a path that exists in the source"⟩
  -- every change is reported exactly once
  let adds := evs.filterMap fun | .add e => some e.path | _ => none
  let mods := evs.filterMap fun | .modify e => some e.path | _ => none
  let dels := evs.filterMap fun | .delete p => some p | _ => none
  for u in upper do
    match findP lower u.path with
    | none => if adds.count u.path != 1 then return ⟨false, "new path not added exactly once"⟩
    | some l =>
      if differNone || !D.same l u then
        if mods.count u.path != 1 then return ⟨false, "changed path not modified exactly once"⟩
  for l in lower do
    if (findP upper l.path).isNone then
      if !coveredByAncestor lower upper l.path then
        if dels.count l.path != 1 then return ⟨false, "top-most removed path not deleted exactly once"⟩
      else if dels.count l.path > 1 then return ⟨false, "path deleted twice"⟩
  return ⟨true, ""⟩

end Fsm
