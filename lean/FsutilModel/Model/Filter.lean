import FsutilModel.Model.Pattern
import FsutilModel.Model.SyncB
/-! `filterFS.Walk` / `filterFS.Open` (filter.go), transcribed, over a flat listing driven by a
WalkDir-style driver with Go's `SkipDir` semantics; and the naive reference filter of C10. -/
namespace Fsm.F
open P

inductive MapRes
  | keep | exclude | skipDir
  | chown (uid : Nat)        -- keep, with a rewritten stat
deriving Repr, DecidableEq

structure Cfg where
  inc : List Pat
  exc : List Pat
  map : List (Path × MapRes) := []     -- table; absent = keep
  prune : Bool := true                 -- directory-skipping shortcuts on
deriving Repr

def metaChars : List Nat := [42, 91, 93, 63, 94, 92]   -- "*[]?^\\"

/-- patternWithoutTrailingGlob; `fixed` = F9 repaired (only one trailing glob is stripped) -/
def withoutTrailingGlob (fixed : Bool) (p : Pat) : Path :=
  let t := p.text
  let strip (suf : Path) (s : Path) : Path := if isSuffixOf suf s then s.take (s.length - suf.length) else s
  if fixed then
    (if isSuffixOf [47, 42, 42] t then strip [47, 42, 42] t else strip [47, 42] t)
  else strip [47, 42] (strip [47, 42, 42] t)

def onlyPrefixIncludes (fixed : Bool) (inc : List Pat) : Bool :=
  inc.all fun p => p.neg || !(withoutTrailingGlob fixed p).any (metaChars.contains ·)

def onlyPrefixExcludeExceptions (fixed : Bool) (exc : List Pat) : Bool :=
  exc.all fun p => !p.neg || !(withoutTrailingGlob fixed p).any (metaChars.contains ·)

structure VDir where
  st : StatE
  pathSep : Path
  inc : List Bool
  exc : List Bool
  calledFn : Bool
  skipFn : Bool
deriving Repr

inductive Act | cont | skipDir
deriving Repr, DecidableEq

def mapOf (cfg : Cfg) (p : Path) : MapRes := ((cfg.map.find? (·.1 = p)).map (·.2)).getD .keep

def applyMap (r : MapRes) (s : StatE) : StatE :=
  match r with
  | .chown u => { s with uid := u }
  | _ => s

/-- lazily report the not-yet-reported ancestors; returns (parentDirs', emitted, skip?) -/
def emitParents (cfg : Cfg) : List VDir → List VDir → List StatE → (List VDir × List StatE × Bool)
  | [], done, out => (done.reverse, out.reverse, false)
  | d :: rest, done, out =>
    if d.skipFn then ((done.reverse ++ d :: rest), out.reverse, true)
    else if d.calledFn then emitParents cfg rest (d :: done) out
    else
      match mapOf cfg d.st.path with
      | .exclude => emitParents cfg rest (d :: done) out
      | .skipDir => ((done.reverse ++ { d with skipFn := true } :: rest), out.reverse, true)
      | r => emitParents cfg rest ({ d with calledFn := true } :: done) (applyMap r d.st :: out)

/-- the callback of filterFS.Walk for one entry. `pd` = parentDirs (bottom first). -/
def callback (fixed : Bool) (cfg : Cfg) (pd0 : List VDir) (e : StatE) : (List VDir × List StatE × Act) :=
  let isDir := e.isDir
  let hasF := !cfg.inc.isEmpty || !cfg.exc.isEmpty
  -- pop parentDirs that are not a prefix of path
  let pd := if hasF then
      let rec pop : List VDir → List VDir
        | [] => []
        | d :: r => if d.pathSep.isPrefixOf e.path then d :: r else pop r
      (pop pd0.reverse).reverse
    else pd0
  let top := pd.getLast?
  let dirSlash := e.path ++ [47]
  -- include
  let (incM, incInfo) := if cfg.inc.isEmpty then (true, []) else matchesUPR cfg.inc e.path ((top.map (·.inc)).getD [])
  let incPrune : Bool :=
    !cfg.inc.isEmpty && !incM && isDir && cfg.prune && onlyPrefixIncludes fixed cfg.inc &&
    !(cfg.inc.any fun p => !p.neg && dirSlash.isPrefixOf (withoutTrailingGlob fixed p ++ [47]))
  if incPrune then (pd, [], .skipDir) else
  let skip1 := !incM
  -- exclude
  let (excM, excInfo) := if cfg.exc.isEmpty then (false, []) else matchesUPR cfg.exc e.path ((top.map (·.exc)).getD [])
  let excPrune : Bool :=
    !cfg.exc.isEmpty && excM && isDir && cfg.prune && onlyPrefixExcludeExceptions fixed cfg.exc &&
    (!(cfg.exc.any (·.neg)) ||
     !(cfg.exc.any fun p => p.neg && dirSlash.isPrefixOf (withoutTrailingGlob fixed p ++ [47])))
  if excPrune then (pd, [], .skipDir) else
  let skip := skip1 || excM
  let dir : VDir := ⟨e, dirSlash, incInfo, excInfo, false, false⟩
  let push (d : VDir) (l : List VDir) : List VDir := if hasF && isDir then l ++ [d] else l
  if skip then (push dir pd, [], .cont) else
  let dir := { dir with calledFn := true }
  match mapOf cfg e.path with
  | .skipDir => (push dir pd, [], .skipDir)
  | .exclude => (push dir pd, [], .cont)
  | r =>
    let (pd', outs, sk) := emitParents cfg pd [] []
    if sk then (push dir pd', outs, .skipDir)
    else (push dir pd', outs ++ [applyMap r e], .cont)

/-- WalkDir-style driver over a flat listing in walk order, with Go's SkipDir semantics -/
def walkLoop (fixed : Bool) (cfg : Cfg) : List StatE → List VDir → Option Path → Option Path → List StatE → List StatE
  | [], _, _, _, out => out.reverse
  | e :: rest, pd, skipUnder, skipRestOf, out =>
    let skippedUnder := match skipUnder with | some d => (d ++ [47]).isPrefixOf e.path | none => false
    if skippedUnder then walkLoop fixed cfg rest pd skipUnder skipRestOf out else
    let par := parentOf e.path
    let skippedRest := match skipRestOf with
      | some d => par = d || (d ++ [47]).isPrefixOf par || d = []
      | none => false
    if skippedRest then walkLoop fixed cfg rest pd none skipRestOf out else
    let (pd', outs, act) := callback fixed cfg pd e
    let out' := outs.reverse ++ out
    match act with
    | .cont => walkLoop fixed cfg rest pd' none none out'
    | .skipDir =>
      if e.isDir then walkLoop fixed cfg rest pd' (some e.path) none out'
      else walkLoop fixed cfg rest pd' none (some par) out'

def filterWalk (fixed : Bool) (cfg : Cfg) (listing : List StatE) : List StatE :=
  walkLoop fixed cfg listing [] none none []

/-- filterFS.Open: can `p` be opened through the filtered view? -/
def canOpen (cfg : Cfg) (p : Path) : Bool :=
  (cfg.inc.isEmpty || matchesOrParent cfg.inc p) && !(!cfg.exc.isEmpty && matchesOrParent cfg.exc p)

/-! ## C10 reference: test every entry of the full tree with the stateless matcher, add ancestors -/

def refKept (cfg : Cfg) (e : StatE) : Bool :=
  (cfg.inc.isEmpty || matchesOrParent cfg.inc e.path) && !(!cfg.exc.isEmpty && matchesOrParent cfg.exc e.path)

def reference (cfg : Cfg) (listing : List StatE) : List StatE :=
  let kept := listing.filter (refKept cfg)
  listing.filter fun e => refKept cfg e || (e.isDir && kept.any fun k => underB e.path k.path)

end Fsm.F

namespace Fsm.F

/-- WithHardlinkReset (hardlinks.go): re-canonicalise hard links of a filtered listing.
`seen` maps a link name / path to the path that now stands for it. -/
def hardlinkResetGo : List (Path × Path) → List StatE → List StatE
  | _, [] => []
  | seen, e :: rest =>
    if e.isDir || e.isSymlink then e :: hardlinkResetGo seen rest
    else
      let lookup (k : Path) := (seen.find? (·.1 = k)).map (·.2)
      let (e', seen1) :=
        if e.linkname ≠ [] then
          match lookup e.linkname with
          | none => ({ e with linkname := [] }, (e.linkname, e.path) :: seen)
          | some v => (if v ≠ e.path then { e with linkname := v } else e, seen)
        else (e, seen)
      e' :: hardlinkResetGo ((e.path, e.path) :: seen1) rest

def hardlinkReset (l : List StatE) : List StatE := hardlinkResetGo [] l

/-- the view the sender announces for a filtered source: filter, then hard-link reset; content tokens follow the
original link source -/
def senderView (fixed : Bool) (cfg : Cfg) (full : List VEnt) : List VEnt :=
  let stats := hardlinkReset (filterWalk fixed cfg (full.map (·.st)))
  stats.map fun s =>
    let orig := full.find? (·.st.path = s.path)
    let srcSha := match orig with
      | some o =>
        if o.st.canRequestData && o.st.linkname ≠ [] then ((full.find? (·.st.path = o.st.linkname)).map (·.sha)).getD o.sha else o.sha
      | none => []
    { st := s, sha := if s.canRequestData && s.linkname = [] then srcSha else [] }

/-- a stack of filters (the first configuration is the innermost `NewFilterFS`), then the hard-link reset -/
def senderViewN (fixed : Bool) (cfgs : List Cfg) (full : List VEnt) : List VEnt :=
  let stats := hardlinkReset (cfgs.foldl (fun l cfg => filterWalk fixed cfg l) (full.map (·.st)))
  stats.map fun s =>
    let orig := full.find? (·.st.path = s.path)
    let srcSha := match orig with
      | some o =>
        if o.st.canRequestData && o.st.linkname ≠ [] then ((full.find? (·.st.path = o.st.linkname)).map (·.sha)).getD o.sha else o.sha
      | none => []
    { st := s, sha := if s.canRequestData && s.linkname = [] then srcSha else [] }

/-- C11: in a reset listing every hard link names an earlier regular non-link entry of the same listing -/
def linksClosed : List Path → List StatE → Bool
  | _, [] => true
  | seen, e :: rest =>
    if e.isDir || e.isSymlink then linksClosed seen rest
    else if e.linkname ≠ [] then seen.contains e.linkname && linksClosed seen rest
    else linksClosed (e.path :: seen) rest

end Fsm.F
