/-! Which repairs (`fix:` commits in the repository) the executable model follows.
`false` = the code as it stood at the pinned commit.  The witness theorems are about `false`,
the full-strength theorems about `true`; the driver runs these values. -/
namespace Fsm.Fix

/-- F1: validator rejects "." and ".." -/
def f1 : Bool := true

end Fsm.Fix
