/-! Which repairs (`fix:` commits in the repository) the executable model follows.
`false` = the code as it stood at the pinned commit.  The witness theorems are about `false`,
the full-strength theorems about `true`; the driver runs these values. -/
namespace Fsm.Fix

/-- F1: validator rejects "." and ".." -/
def f1 : Bool := true

/-- F2: metadata-only receive advances the id counter for the listing name too -/
def f2 : Bool := true

/-- companion of F6: a selected directory is forwarded once in metadata-only mode -/
def f6b : Bool := true

/-- F9: patternWithoutTrailingGlob strips one trailing glob only -/
def f9 : Bool := true

/-- F4: dedupePaths compares with every kept element -/
def f4 : Bool := true

/-- F18: FollowLinks clamps requested paths at the root -/
def f18 : Bool := true

/-- F23: copy names the landing entry after the source argument confined to the source root ("sub/.." is the root) -/
def f23 : Bool := true

/-- F24: WriteTar applies the hard-link reset to the view it is given (as Send does) -/
def f24 : Bool := true

/-- F25: a follow path that leads to the root removes the include filter even when IncludePatterns are given -/
def f25 : Bool := true

/-- F29: copy forgets the hard-link sources recorded at or below a destination path it replaces -/
def f29 : Bool := true

end Fsm.Fix
