import FsutilModel.Clean
/-! Byte-level `path/filepath` functions (unix, separator '/') as fsutil uses them.
Executable; tied to Go's stdlib by the `pathfn` correspondence suite. -/
namespace Fsm

/-- index one past the last separator (0 if none) -/
def lastSepEnd (p : Path) : Nat :=
  let rec go : List Nat → Nat → Nat → Nat
    | [], _, acc => acc
    | b :: rest, i, acc => go rest (i+1) (if b = sep then i+1 else acc)
  go p 0 0

/-- filepath.Dir -/
def dirB (p : Path) : Path := clean (p.take (lastSepEnd p))

def stripTrailingSeps (p : Path) : Path :=
  (p.reverse.dropWhile (· = sep)).reverse

/-- filepath.Base -/
def baseB (p : Path) : Path :=
  if p = [] then [dot] else
  let q := stripTrailingSeps p
  let r := q.drop (lastSepEnd q)
  if r = [] then [sep] else r

/-- filepath.Join -/
def joinB (elems : List Path) : Path :=
  match elems.filter (· ≠ []) with
  | [] => []
  | es => clean (joinSep es)

/-- the parent of `p` as the validator sees it ("" = root) -/
def parentOf (p : Path) : Path := let d := dirB p; if d = [dot] then [] else d

def hasPrefixB (pre p : Path) : Bool := pre.isPrefixOf p

/-- sign of ComparePath -/
def cmpSign (a b : Path) : Int :=
  let r := comparePath a b
  if r < 0 then -1 else if r > 0 then 1 else 0

end Fsm
