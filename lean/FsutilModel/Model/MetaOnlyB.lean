import FsutilModel.MetaOnly
import FsutilModel.Buffer
import FsutilModel.Model.SyncB
import FsutilModel.Model.Fixes
/-! Metadata-only receive (receive.go STAT branch + buffer.go), byte level: which ids are registered,
what is forwarded to the disk writer, what the listing file contains. -/
namespace Fsm

def metaNameB : Path := [46, 102, 115, 117, 116, 105, 108, 45, 109, 101, 116, 97, 100, 97, 116, 97]  -- ".fsutil-metadata"

structure MetaRes where
  files : List (Path × Nat)        -- path ↦ id registered for a content request
  forwarded : List StatE           -- what is handed to the change computation, in order
  listing : List StatE             -- what is framed into the listing buffer, in order
deriving Repr

structure MetaSt where
  i : Nat := 0
  files : List (Path × Nat) := []
  stack : List StatE := []         -- top first
  forwarded : List StatE := []
  listing : List StatE := []

def popToB (parent : Path) : List StatE → List StatE
  | [] => []
  | t :: rest => if parent = t.path then t :: rest else popToB parent rest

/-- one STAT in metadata-only mode (`fixed` = F2 repaired: the counter advances for the listing name too) -/
def metaStep (fixed : Bool) (selected : Path → Bool) (s : MetaSt) (e : StatE) : MetaSt :=
  if e.path = metaNameB then (if fixed then { s with i := s.i + 1 } else s)
  else
    let s := { s with listing := s.listing ++ [e] }
    let metaOnly := !selected e.path
    let s := if !metaOnly && e.canRequestData then { s with files := s.files ++ [(e.path, s.i)] } else s
    let s := { s with i := s.i + 1 }
    let st0 := popToB (dirB e.path) s.stack
    let st := if e.isDir then e :: st0 else st0
    if metaOnly then { s with stack := st }
    else if Fix.f6b then { s with forwarded := s.forwarded ++ st0.reverse ++ [e], stack := [] }
    else { s with forwarded := s.forwarded ++ st.reverse ++ [e], stack := [] }

def metaRun (fixed : Bool) (selected : Path → Bool) (es : List StatE) : MetaRes :=
  let s := es.foldl (metaStep fixed selected) {}
  ⟨s.files, s.forwarded, s.listing⟩

/-- consecutive duplicates (a selected directory is forwarded twice in a row) collapse for the tree -/
def dedupAdj : List StatE → List StatE
  | [] => []
  | [x] => [x]
  | x :: y :: rest => if x.path = y.path then dedupAdj (y :: rest) else x :: dedupAdj (y :: rest)

/-! reference: selected entries plus the ancestors they need, in stream order, each once -/
def specForwarded (selected : Path → Bool) (es : List StatE) : List StatE :=
  let es' := es.filter (·.path ≠ metaNameB)
  es'.filter fun e => selected e.path || (e.isDir && es'.any fun d => selected d.path && underB e.path d.path)

end Fsm
