import FsutilModel.Model.SyncB
/-! `WriteTar` (tarwriter.go) at the level of archive members: the header fsutil builds for each view
entry and whether a payload follows. The byte layout of ustar/PAX is `archive/tar`'s and is trusted. -/
namespace Fsm.T

inductive TF | reg | dir | symlink | link | chr | blk | fifo | unsupported
deriving Repr, DecidableEq

structure Member where
  name : Path
  tf : TF
  size : Int
  perm : Nat              -- permission bits + setuid/setgid/sticky as tar mode bits (unix 0o7777)
  uid : Nat
  gid : Nat
  mtimeSec : Int
  linkname : Path
  devmajor : Int
  devminor : Int
  xattrs : List (Path × Path)
  sha : Path              -- payload token ([] = no payload)
deriving Repr, DecidableEq

/-- archive/tar.FileInfoHeader's type choice -/
def typeOf (s : StatE) : TF :=
  if s.isDir then .dir
  else if s.isSymlink then .symlink
  else if s.mode &&& modeDevice != 0 then (if s.mode &&& modeCharDevice != 0 then .chr else .blk)
  else if s.mode &&& modeNamedPipe != 0 then .fifo
  else if s.mode &&& modeSocket != 0 then .unsupported
  else .reg

def unixPerm (m : Nat) : Nat :=
  (m &&& 511) + (if m &&& modeSetuid != 0 then 2048 else 0) + (if m &&& modeSetgid != 0 then 1024 else 0) +
  (if m &&& modeSticky != 0 then 512 else 0)

/-- ModTime.Round(time.Second) for the default (unspecified) header format -/
def roundSec (ns : Int) : Int := (ns + 500000000) / 1000000000

def memberOf (v : VEnt) : Member :=
  let s := v.st
  let t0 := typeOf s
  let isLinkish := s.linkname ≠ []
  let tf := if isLinkish then (if s.isSymlink then TF.symlink else TF.link) else t0
  let size : Int := if isLinkish then 0 else (if t0 = .reg then s.size else 0)
  { name := if s.isDir && s.path.getLast? ≠ some 47 then s.path ++ [47] else s.path,
    tf := tf, size := size, perm := unixPerm s.mode, uid := s.uid, gid := s.gid, mtimeSec := roundSec s.mtime,
    linkname := s.linkname, devmajor := s.devmajor, devminor := s.devminor, xattrs := s.xattrs,
    sha := if tf = .reg && size > 0 && !isLinkish then v.sha else [] }

def members (view : List VEnt) : List Member := view.map memberOf

/-- is a payload written after the header? (tarwriter.go's condition) -/
def hasPayload (m : Member) : Bool := m.tf = .reg && m.size > 0 && m.linkname = []

end Fsm.T
