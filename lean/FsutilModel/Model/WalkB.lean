import FsutilModel.Walk
import FsutilModel.Model.DiffB
import FsutilModel.Model.PathFn
/-! `fs.Walk` (fs.go) + `mkstat`/`setUnixOpt` (stat.go, stat_unix.go): executable model.
The order of the walk is that of the rose-tree pre-order walk `Fsm.walk` (the function the theorem
`walk_ascending` is about), run on the tree built from the snapshot's paths. -/
namespace Fsm

/-- independent lstat/readlink/listxattr view of one entry -/
structure Snap where
  st : StatE         -- path, Go mode bits, uid, gid, size, mtime, link target (symlinks), rdev major/minor, xattrs
  ino : Nat
  nlink : Nat
  sha : Path := []   -- content token of a regular file (uninterpreted)
deriving Repr

/-- insert into a child list kept sorted bytewise by name -/
def insertSorted (c : Path) (f : Option Node → Node) : List (Path × Node) → List (Path × Node)
  | [] => [(c, f none)]
  | (n, x) :: rest =>
    if n = c then (n, f (some x)) :: rest
    else if strLt c n then (c, f none) :: (n, x) :: rest
    else (n, x) :: insertSorted c f rest

def childrenOf : Node → List (Path × Node)
  | .dir cs => cs
  | .file => []

def insertPath : List Path → Node → Node
  | [], n => n
  | c :: rest, n =>
    .dir (insertSorted c (fun o => insertPath rest (o.getD (.dir []))) (childrenOf n))

def buildTree (paths : List Path) : Node :=
  paths.foldl (fun t p => insertPath (comps p) t) (.dir [])

def atOrUnder (t q : Path) : Bool := q = t || underB t q

/-- the paths `fs.Walk(target)` visits, in order -/
def walkOrder (snap : List Snap) (target : Path) : List Path :=
  let all := walk [] (buildTree (snap.map (·.st.path)))
  let t := clean target
  if t = [dot] then all else all.filter (atOrUnder t)

def skipXattr (k : Path) : Bool := hasPrefixB [99, 111, 109, 46, 97, 112, 112, 108, 101, 46] k  -- "com.apple."

/-- mkstat + setUnixOpt for one entry; `seen` is the inode → first path map -/
def mkstatB (seen : List (Nat × Path)) (e : Snap) : StatE × List (Nat × Path) :=
  let s := e.st
  let base : StatE := { s with mode := s.mode &&& (4294967295 - modeSocket), xattrs := s.xattrs.filter (fun kv => !skipXattr kv.1) }
  if s.isDir then ({ base with size := 0 }, seen)
  else
    let old := if e.nlink > 1 then (seen.find? (·.1 = e.ino)).map (·.2) else none
    match old with
    | some o =>
      -- linked: Linkname := first path (overwritten again by readlink for symlinks); Size is re-set from lstat
      ({ base with linkname := if s.isSymlink then s.linkname else o }, seen)
    | none => (base, (e.ino, s.path) :: seen)

def walkHLGo : List (Nat × Path) → List Snap → List Path → List StatE
  | _, _, [] => []
  | seen, snap, p :: ps =>
    match snap.find? (·.st.path = p) with
    | none => walkHLGo seen snap ps
    | some e =>
      let (st, seen') := mkstatB seen e
      st :: walkHLGo seen' snap ps

/-- what `NewFS(root).Walk(target)` reports -/
def walkHL (snap : List Snap) (target : Path) : List StatE :=
  walkHLGo [] snap (walkOrder snap target)

/-! ## reference specification, in the property's words -/

/-- strictly ascending under component-wise comparison -/
def ascendingC : List Path → Bool
  | [] => true
  | [_] => true
  | a :: b :: rest => compsLt (comps a) (comps b) && ascendingC (b :: rest)

def specWalk (snap : List Snap) (target : Path) (out : List StatE) : SpecVerdict := Id.run do
  let t := clean target
  let want := snap.filter fun e => t = [dot] || atOrUnder t e.st.path
  let paths := out.map (·.path)
  if !ascendingC paths then return ⟨false, "not strictly ascending in path order"⟩
  for e in want do
    if paths.count e.st.path != 1 then return ⟨false, "entry not reported exactly once"⟩
  if paths.length != want.length then return ⟨false, "reports something that is not an entry below the root"⟩
  -- parents first follows from ascending + prefix order; checked directly all the same
  let rec parentsFirst : List Path → List Path → Bool
    | _, [] => true
    | seen, p :: ps => (parentOf p = [] || t != [dot] || seen.contains (parentOf p)) && parentsFirst (p :: seen) ps
  if !parentsFirst [] paths then return ⟨false, "directory reported after its contents"⟩
  -- stats: match lstat/readlink/listxattr; hard-link rule among files sharing an inode
  let mut first : List (Nat × Path) := []
  for o in out do
    match want.find? (·.st.path = o.path) with
    | none => return ⟨false, "unknown path"⟩
    | some e =>
      let s := e.st
      if o.mode != s.mode &&& (4294967295 - modeSocket) || o.uid != s.uid || o.gid != s.gid || o.mtime != s.mtime ||
         o.devmajor != s.devmajor || o.devminor != s.devminor || o.xattrs != s.xattrs then
        return ⟨false, "stat does not match lstat/listxattr"⟩
      if s.isDir then
        if o.linkname != [] then return ⟨false, "directory with link name"⟩
      else if s.isSymlink then
        if o.linkname != s.linkname then return ⟨false, "symlink target does not match readlink"⟩
      else
        let grp := if e.nlink > 1 then (first.find? (·.1 = e.ino)).map (·.2) else none
        match grp with
        | some f => if o.linkname != f then return ⟨false, "later member of a hard-link group does not name the first"⟩
        | none =>
          if o.linkname != [] then return ⟨false, "first member of a hard-link group (or unlinked file) carries a link name"⟩
          if o.size != s.size then return ⟨false, "size does not match lstat"⟩
      if !s.isDir && !(e.nlink > 1 && (first.find? (·.1 = e.ino)).isSome) then first := (e.ino, s.path) :: first
  return ⟨true, ""⟩

end Fsm

namespace Fsm

/-- SubDirFS.Walk (fs.go): named sub-roots in bytewise name order, each sub-walk prefixed with its name; link names of hard
links are prefixed, absolute symlink targets are re-rooted below the sub-root. -/
def subDirWalk (dirs : List (StatE × List Snap)) : List StatE :=
  let sorted := dirs.foldl (fun acc d =>
    let rec ins : List (StatE × List Snap) → List (StatE × List Snap)
      | [] => [d]
      | x :: xs => if strLt d.1.path x.1.path then d :: x :: xs else x :: ins xs
    ins acc) []
  sorted.flatMap fun (root, snap) =>
    root :: (walkHL snap []).map fun s =>
      let ln := if s.linkname = [] then [] else
        if s.isSymlink then (if s.linkname.head? = some 47 then joinB [[47] ++ root.path, s.linkname] else s.linkname)
        else joinB [root.path, s.linkname]
      { s with path := joinB [root.path, s.path], linkname := ln }

end Fsm
