import FsutilModel.Model.WalkB
/-! Tree-level model of one transfer (sender view → receiver destination) and the executable
reference specifications of C01 / C02 / C05 / C07 at that level. -/
namespace Fsm

/-- an entry of the sender's view: the stat it announces + the content token of a regular file -/
structure VEnt where
  st : StatE
  sha : Path := []
deriving Repr

structure SyncOpt where
  merge : Bool := false
  differNone : Bool := false
  rfilter : Option (Nat × Nat) := none    -- receive-side Filter rewriting uid/gid
deriving Repr

def applyRFilter (o : SyncOpt) (s : StatE) : StatE :=
  match o.rfilter with
  | some (u, g) => { s with uid := u, gid := g }
  | none => s

def StatE.canRequestData (s : StatE) : Bool := s.mode &&& modeType == 0

/-- the listing the receiver's own walk of the destination yields -/
def lowerOf (o : SyncOpt) (before : List Snap) : List StatE :=
  if o.merge then [] else walkHL before []

def findSnap (xs : List Snap) (p : Path) : Option Snap := xs.find? (·.st.path = p)

/-- The hard-link exception of C02/C08, resolved by observation. The destination walk runs concurrently with the
application of changes: a file that the walk would report as a hard link to `L` stops being one when `L` is removed
or replaced by this very transfer, and whether the walk still sees the link depends on timing. For such an entry the
listing is taken as the implementation must have seen it: without the link name when the entry kept its inode (it was
compared as a plain file), with it otherwise. Every other entry is as the walk reports it. -/
def lowerObs (o : SyncOpt) (before after : List Snap) (view : List VEnt) : List StatE :=
  let lower := lowerOf o before
  let evs := diffB o.differNone lower (view.map fun v => applyRFilter o v.st)
  -- is the entry at `q` removed or replaced by this transfer? (itself rewritten or deleted, or below a directory that is
  -- deleted or turned into a non-directory; a metadata change of an ancestor directory does not count)
  let touched (q : Path) : Bool := evs.any fun ev => match ev with
    | .add e | .modify e => e.path = q || (underB e.path q && !e.isDir)
    | .delete d => d = q || underB d q
  lower.map fun le =>
    if le.linkname ≠ [] && !le.isDir && !le.isSymlink && touched le.linkname then
      match findSnap before le.path, findSnap after le.path with
      | some b, some a => if a.ino = b.ino then { le with linkname := [] } else le
      | _, _ => le
    else le

/-- the paths to which the exception was applied (seen as plain files because their inode was kept) -/
def obsPlain (o : SyncOpt) (before after : List Snap) (view : List VEnt) : List Path :=
  ((lowerOf o before).zip (lowerObs o before after view)).filterMap fun (a, b) =>
    if a.linkname != b.linkname then some a.path else none

/-- change events the receiver computes (the listing of the destination as observed, see `lowerObs`) -/
def syncEvents (o : SyncOpt) (before after : List Snap) (view : List VEnt) : List BEv :=
  diffB o.differNone (lowerObs o before after view) (view.map fun v => applyRFilter o v.st)

def indexOfPath (view : List VEnt) (p : Path) : Option Nat :=
  let rec go : List VEnt → Nat → Option Nat
    | [], _ => none
    | v :: vs, i => if v.st.path = p then some i else go vs (i+1)
  go view 0

/-- ids the receiver requests: the STAT index of every added/modified regular entry without link name -/
def expectedReqs (o : SyncOpt) (before after : List Snap) (view : List VEnt) : List Nat :=
  (syncEvents o before after view).filterMap fun ev =>
    match ev with
    | .add e | .modify e =>
      match view.find? (·.st.path = e.path) with
      | some v => if v.st.canRequestData && v.st.linkname = [] then indexOfPath view e.path else none
      | none => none
    | .delete _ => none

/-! ## C01: the destination equals the view -/

def findV (xs : List VEnt) (p : Path) : Option VEnt := xs.find? (·.st.path = p)

/-- the path of the group leader of a view entry (itself when not a link) -/
def groupOf (v : VEnt) : Path :=
  if !v.st.isDir && !v.st.isSymlink && v.st.linkname ≠ [] then v.st.linkname else v.st.path

/-- does the transfer create this entry anew (so that xattrs / directory mtime are specified)? -/
def createdBy (evs : List BEv) (before : List Snap) (v : VEnt) : Bool :=
  if v.st.isDir then
    match findSnap before v.st.path with
    | some b => !b.st.isDir
    | none => true
  else evs.any fun ev => match ev with
    | .add e | .modify e => e.path = v.st.path
    | .delete _ => false

/-- per-entry comparison of what is on disk afterwards with the view entry -/
def entryMatches (o : SyncOpt) (evs : List BEv) (plain : List Path) (before after : List Snap) (view : List VEnt) (v : VEnt) (a : Snap) : SpecVerdict := Id.run do
  let s := applyRFilter o v.st
  let d := a.st
  if d.mode != s.mode then return ⟨false, "mode/type differs"⟩
  if d.uid != s.uid || d.gid != s.gid then return ⟨false, "owner differs"⟩
  let created := createdBy evs before v
  if s.isDir then
    if created && d.mtime != s.mtime then return ⟨false, "mtime of a created directory differs"⟩
  else
    if d.mtime != s.mtime then return ⟨false, "mtime of a non-directory differs"⟩
    if s.isSymlink then
      if d.linkname != s.linkname then return ⟨false, "symlink target differs"⟩
    else
      if d.devmajor != s.devmajor || d.devminor != s.devminor then return ⟨false, "device numbers differ"⟩
      if s.canRequestData then
        -- bytes: those of the group leader
        match findV view (groupOf v) with
        | some l =>
          -- the hard-link exception: an entry that was compared as a plain file (see `lowerObs`) and found unchanged keeps
          -- its inode and bytes
          let keptAsIs := !created && plain.contains v.st.path &&
            (match findSnap before v.st.path with | some b => b.ino = a.ino && b.sha = a.sha | none => false)
          if a.sha != l.sha && !keptAsIs then return ⟨false, "file bytes differ"⟩
        | none => return ⟨false, "link source not in the view"⟩
  if created && (s.isDir || (s.canRequestData && s.linkname = [])) then
    -- xattrs of every regular file and directory the transfer created
    if !(s.xattrs.all fun kv => d.xattrs.contains kv) then return ⟨false, "xattrs of a created entry are missing"⟩
    if s.canRequestData && !(d.xattrs.all fun kv => s.xattrs.contains kv) then return ⟨false, "extra xattrs on a created file"⟩
  return ⟨true, ""⟩

/-- C01: destination tree = view (non-merge) / overlay (merge) -/
def specSync (o : SyncOpt) (before after : List Snap) (view : List VEnt) : SpecVerdict := Id.run do
  let evs := syncEvents o before after view
  let plain := obsPlain o before after view
  for v in view do
    match findSnap after v.st.path with
    | none => return ⟨false, "view entry missing in the destination"⟩
    | some a =>
      let r := entryMatches o evs plain before after view v a
      if !r.ok then return r
  -- hard-link groups: same inode iff same group
  -- (symbolic links are left out: the protocol has no way to announce a hard link between symlinks — the link-name field
  -- of a symlink entry is its target — so nothing is demanded of them)
  let gi : List (Path × Nat) := view.filterMap fun v =>
    if v.st.isDir || v.st.isSymlink then none else (findSnap after v.st.path).map fun a => (groupOf v, a.ino)
  for x in gi do
    for y in gi do
      if (x.1 == y.1) != (x.2 == y.2) then return ⟨false, "hard-link groups differ"⟩
  for a in after do
    if (findV view a.st.path).isNone then
      if !o.merge then return ⟨false, "destination has an entry the view does not have"⟩
      -- merge: must be an old entry, untouched
      match findSnap before a.st.path with
      | none => return ⟨false, "merge: destination has an entry that is neither old nor in the view"⟩
      | some b => if b.ino != a.ino || b.sha != a.sha || b.st.mode != a.st.mode then return ⟨false, "merge: unrelated old entry was modified"⟩
  if o.merge then
    for b in before do
      if (findSnap after b.st.path).isNone then
        -- gone: allowed only when the source replaced it or an ancestor of it by an entry of a different kind
        let replaced := view.any fun v => (v.st.path = b.st.path || underB v.st.path b.st.path) &&
          (match findSnap before v.st.path with | some ob => ob.st.isDir != v.st.isDir || v.st.path = b.st.path | none => false)
        if !replaced then return ⟨false, "merge: an old entry the source does not replace was deleted"⟩
  return ⟨true, ""⟩

/-! ## C02: untouched entries keep their inode -/

def specUntouched (o : SyncOpt) (before after : List Snap) (view : List VEnt) : SpecVerdict := Id.run do
  let evs := syncEvents o before after view
  for b in before do
    let touched := evs.any fun ev => match ev with
      | .add e | .modify e => e.path = b.st.path || underB e.path b.st.path
      | .delete p => p = b.st.path || underB p b.st.path
    if !touched && !b.st.isDir then
      match findSnap after b.st.path with
      | none => return ⟨false, "an unchanged entry disappeared"⟩
      | some a => if a.ino != b.ino then return ⟨false, "an unchanged entry was rewritten (inode changed)"⟩
  return ⟨true, ""⟩

end Fsm
