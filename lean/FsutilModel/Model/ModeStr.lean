import FsutilModel.Model.DiffB
/-! tonistiigi/dchapes-mode for the clause fragment `[ugoa]*[+-=][rwxXst]*(,…)*` (no permission copy `u`/`g`/`o` on the
right-hand side, umask 0), transcribed: parse → bit commands → compress → apply. -/
namespace Fsm.MS

def isUID : Nat := 2048
def isGID : Nat := 1024
def isTXT : Nat := 512
def iRWXU : Nat := 448
def iRWXG : Nat := 56
def iRWXO : Nat := 7
def standardBits : Nat := isUID ||| isGID ||| iRWXU ||| iRWXG ||| iRWXO
def allX : Nat := 73      -- 0111
def mask16 : Nat := 65535

inductive Cmd | plus | minus | bigX
deriving Repr, DecidableEq

structure BitCmd where
  cmd : Cmd
  bits : Nat
deriving Repr

def andNot (a b : Nat) : Nat := a &&& (mask16 - (b &&& mask16))

/-- addcmd for '+', '-', '=', 'X' (mask = all ones) -/
def addcmd (op : Nat) (who oparg : Nat) : List BitCmd :=
  let bits := if who ≠ 0 then who &&& oparg else oparg
  if op = 61 then   -- '='
    [⟨.minus, if who ≠ 0 then who else standardBits⟩, ⟨.plus, bits⟩]
  else if op = 43 then [⟨.plus, bits⟩]
  else if op = 45 then [⟨.minus, bits⟩]
  else [⟨.bigX, bits⟩]

/-- one clause `who op perms`; returns the commands and the rest of the string after the perms -/
def parsePerms (op : Nat) (who0 : Nat) : Nat → List Nat → Nat → Nat → Nat → Bool → (List BitCmd × List Nat × Bool)
  | 0, s, _, _, _, eq => ([], s, eq)
  | fuel+1, s, who, perm, permX, equalOpDone =>
    let b := s.head?.getD 0
    let whoOk := who = 0 || andNot who iRWXO ≠ 0
    if b = 114 then parsePerms op who0 fuel (s.drop 1) who (perm ||| 292) permX equalOpDone          -- r
    else if b = 115 then parsePerms op who0 fuel (s.drop 1) who (if whoOk then perm ||| isUID ||| isGID else perm) permX equalOpDone   -- s
    else if b = 116 then (if whoOk then parsePerms op who0 fuel (s.drop 1) (who ||| isTXT) (perm ||| isTXT) permX equalOpDone
                          else parsePerms op who0 fuel (s.drop 1) who perm permX equalOpDone)      -- t
    else if b = 119 then parsePerms op who0 fuel (s.drop 1) who (perm ||| 146) permX equalOpDone     -- w
    else if b = 88 then (if op ≠ 45 then parsePerms op who0 fuel (s.drop 1) who perm allX equalOpDone
                         else parsePerms op who0 fuel (s.drop 1) who (perm ||| allX) permX equalOpDone)   -- X
    else if b = 120 then parsePerms op who0 fuel (s.drop 1) who (perm ||| allX) permX equalOpDone    -- x
    else
      let c1 := if perm ≠ 0 || (op = 61 && !equalOpDone) then addcmd op who perm else []
      let eq' := if perm ≠ 0 || (op = 61 && !equalOpDone) then (if op = 61 then true else equalOpDone) else equalOpDone
      let c2 := if permX ≠ 0 then addcmd 88 who permX else []
      (c1 ++ c2, s, eq')

/-- the whole string; `none` = syntax error / outside the fragment -/
def parseLoop : Nat → List Nat → Bool → Option (List BitCmd)
  | 0, _, _ => none
  | fuel+1, s, equalOpDone =>
    -- who
    let rec whoLoop : List Nat → Nat → (Nat × List Nat)
      | 97 :: r, w => whoLoop r (w ||| standardBits)
      | 117 :: r, w => whoLoop r (w ||| isUID ||| iRWXU)
      | 103 :: r, w => whoLoop r (w ||| isGID ||| iRWXG)
      | 111 :: r, w => whoLoop r (w ||| iRWXO)
      | r, w => (w, r)
    let (who, s1) := whoLoop s 0
    -- one or more "op perms" groups for this who
    let rec ops : Nat → List Nat → Bool → Option (List BitCmd × List Nat × Bool)
      | 0, _, _ => none
      | f+1, t, eq =>
        match t with
        | [] => none
        | op :: t1 =>
          if op ≠ 43 ∧ op ≠ 45 ∧ op ≠ 61 then none else
          let eq0 := if op = 61 then false else eq
          let (cs, t2, eq1) := parsePerms op who (t1.length + 1) t1 (andNot who isTXT) 0 0 eq0
          match t2 with
          | [] => some (cs, [], eq1)
          | 44 :: t3 => some (cs, 44 :: t3, eq1)
          | _ => (match ops f t2 eq1 with
                  | some (cs', t4, eq2) => some (cs ++ cs', t4, eq2)
                  | none => none)
    match ops (s1.length + 1) s1 equalOpDone with
    | none => none
    | some (cs, [], _) => some cs
    | some (cs, 44 :: rest, eq) => (parseLoop fuel rest eq).map (cs ++ ·)
    | some _ => none

/-- Set.compress: merge runs of + / - / X commands -/
def compress (cmds : List BitCmd) : List BitCmd :=
  let (clr, set, x) := cmds.foldl (fun (acc : Nat × Nat × Nat) c =>
    let (clr, set, x) := acc
    match c.cmd with
    | .minus => (clr ||| c.bits, andNot set c.bits, andNot x c.bits)
    | .plus => (andNot clr c.bits, set ||| c.bits, andNot x c.bits)
    | .bigX => (clr, set, x ||| andNot c.bits set)) (0, 0, 0)
  (if clr ≠ 0 then [⟨.minus, clr⟩] else []) ++ (if set ≠ 0 then [⟨.plus, set⟩] else []) ++ (if x ≠ 0 then [⟨.bigX, x⟩] else [])

def modeSetuidBit : Nat := 8388608
def modeSetgidBit : Nat := 4194304
def modeStickyBit : Nat := 1048576

def toBits (fm : Nat) : Nat :=
  (fm &&& 511) ||| (if fm &&& modeSetuidBit != 0 then isUID else 0) ||| (if fm &&& modeSetgidBit != 0 then isGID else 0) |||
  (if fm &&& modeStickyBit != 0 then isTXT else 0)

def ofBits (old m : Nat) : Nat :=
  (old &&& (4294967295 - (511 ||| modeSetuidBit ||| modeSetgidBit ||| modeStickyBit))) ||| (m &&& 511) |||
  (if m &&& isUID != 0 then modeSetuidBit else 0) ||| (if m &&& isGID != 0 then modeSetgidBit else 0) |||
  (if m &&& isTXT != 0 then modeStickyBit else 0)

/-- Set.Apply on a Go FileMode -/
def applySet (cmds : List BitCmd) (fm : Nat) : Nat :=
  let omode := toBits fm
  let isDir := fm &&& modeDir != 0
  let newmode := cmds.foldl (fun nm c =>
    match c.cmd with
    | .plus => nm ||| c.bits
    | .minus => andNot nm c.bits
    | .bigX => if omode &&& allX != 0 || isDir then nm ||| c.bits else nm) omode
  ofBits fm newmode

/-- mode.ParseWithUmask(s, 0) then Apply -/
def applyModeStr (s : List Nat) (fm : Nat) : Option Nat :=
  (parseLoop (s.length + 1) s false).map fun cs => applySet (compress cs) fm

end Fsm.MS
