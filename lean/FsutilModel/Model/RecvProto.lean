import FsutilModel.Model.SyncB
import FsutilModel.Model.ValidatorB
import FsutilModel.Model.Fixes
/-! Receiver side of the wire protocol (C07) as an abstract LTS used as acceptor of real event logs,
with its invariant; and the receiver's admission checks on a hostile packet script (C03). -/
namespace Fsm.R

abbrev Bytes := List Nat

structure St where
  need : List Nat                      -- ids the change computation will want (regular, no link name, added/modified)
  statsRecv : Nat := 0
  endSeen : Bool := false
  reqd : List Nat := []
  termd : List Nat := []
  stored : List (Nat × Bytes) := []    -- bytes written per id, as (id, chunk) history
  finSent : Bool := false

inductive Ev
  | rStat | rEnd
  | sReq (id : Nat)
  | rData (id : Nat) (b : Bytes)
  | rTerm (id : Nat)
  | sFin
deriving Repr

def step (s : St) : Ev → Option St
  | .rStat => if s.endSeen then none else some { s with statsRecv := s.statsRecv + 1 }
  | .rEnd => if s.endSeen then none else some { s with endSeen := true }
  | .sReq id =>
    if id < s.statsRecv ∧ id ∈ s.need ∧ id ∉ s.reqd ∧ s.finSent = false then some { s with reqd := id :: s.reqd } else none
  | .rData id b =>
    if id ∈ s.reqd ∧ id ∉ s.termd then some { s with stored := s.stored ++ [(id, b)] } else none
  | .rTerm id =>
    if id ∈ s.reqd ∧ id ∉ s.termd then some { s with termd := id :: s.termd } else none
  | .sFin =>
    if s.endSeen ∧ s.finSent = false ∧ (∀ id ∈ s.need, id ∈ s.termd) then some { s with finSent := true } else none

def run : St → List Ev → Option St
  | s, [] => some s
  | s, e :: es => match step s e with | none => none | some s' => run s' es

/-- bytes stored for an id = concatenation of its chunk history -/
def storedFor (id : Nat) (s : St) : Bytes := (s.stored.filter (·.1 = id)).flatMap (·.2)

/-- payloads delivered for an id in an event list -/
def payloads (id : Nat) : List Ev → Bytes
  | [] => []
  | .rData i b :: es => if i = id then b ++ payloads id es else payloads id es
  | _ :: es => payloads id es

structure Inv (s : St) : Prop where
  reqNeed : ∀ id ∈ s.reqd, id ∈ s.need ∧ id < s.statsRecv
  reqNodup : s.reqd.Nodup
  termReq : ∀ id ∈ s.termd, id ∈ s.reqd
  fin : s.finSent = true → s.endSeen = true ∧ ∀ id ∈ s.need, id ∈ s.termd

theorem inv_init (need : List Nat) : Inv { need := need } := by
  constructor <;> simp

theorem inv_step {s s' : St} {e : Ev} (hi : Inv s) (hs : step s e = some s') : Inv s' := by
  cases e with
  | rStat =>
    simp only [step] at hs
    split at hs
    · cases hs
    · cases hs
      exact ⟨fun id h => ⟨(hi.reqNeed id h).1, Nat.lt_succ_of_lt (hi.reqNeed id h).2⟩, hi.reqNodup, hi.termReq, hi.fin⟩
  | rEnd =>
    simp only [step] at hs
    split at hs
    · cases hs
    · cases hs
      exact ⟨hi.reqNeed, hi.reqNodup, hi.termReq, fun h => ⟨rfl, (hi.fin h).2⟩⟩
  | sReq id =>
    simp only [step] at hs
    split at hs
    · rename_i hc
      cases hs
      obtain ⟨h1, h2, h3, h4⟩ := hc
      refine ⟨?_, ?_, ?_, ?_⟩
      · intro i hi'
        simp only [List.mem_cons] at hi'
        rcases hi' with rfl | h
        · exact ⟨h2, h1⟩
        · exact hi.reqNeed i h
      · exact List.nodup_cons.mpr ⟨h3, hi.reqNodup⟩
      · intro i h; exact List.mem_cons_of_mem _ (hi.termReq i h)
      · intro h; simp only at h; rw [h4] at h; cases h
    · cases hs
  | rData id b =>
    simp only [step] at hs
    split at hs
    · cases hs; exact ⟨hi.reqNeed, hi.reqNodup, hi.termReq, hi.fin⟩
    · cases hs
  | rTerm id =>
    simp only [step] at hs
    split at hs
    · rename_i hc
      cases hs
      refine ⟨hi.reqNeed, hi.reqNodup, ?_, ?_⟩
      · intro i h
        simp only [List.mem_cons] at h
        rcases h with rfl | h
        · exact hc.1
        · exact hi.termReq i h
      · intro h
        obtain ⟨h1, h2⟩ := hi.fin h
        exact ⟨h1, fun i hn => List.mem_cons_of_mem _ (h2 i hn)⟩
    · cases hs
  | sFin =>
    simp only [step] at hs
    split at hs
    · rename_i hc
      cases hs
      exact ⟨hi.reqNeed, hi.reqNodup, hi.termReq, fun _ => ⟨hc.1, hc.2.2⟩⟩
    · cases hs

theorem inv_run : ∀ (es : List Ev) (s s' : St), Inv s → run s es = some s' → Inv s'
  | [], s, s', hi, h => by simp [run] at h; subst h; exact hi
  | e :: es, s, s', hi, h => by
    simp only [run] at h
    cases hs : step s e with
    | none => rw [hs] at h; cases h
    | some s1 => rw [hs] at h; exact inv_run es s1 s' (inv_step hi hs) h

theorem storedFor_step {s s' : St} {e : Ev} (hs : step s e = some s') (id : Nat) :
    storedFor id s' = storedFor id s ++ payloads id [e] := by
  cases e with
  | rData i b =>
    simp only [step] at hs
    split at hs
    · cases hs
      simp only [storedFor, payloads, List.filter_append, List.flatMap_append]
      by_cases h : i = id
      · simp [h]
      · simp [h]
    · cases hs
  | rStat => simp only [step] at hs; split at hs <;> cases hs; simp [storedFor, payloads]
  | rEnd => simp only [step] at hs; split at hs <;> cases hs; simp [storedFor, payloads]
  | sReq i => simp only [step] at hs; split at hs <;> cases hs; simp [storedFor, payloads]
  | rTerm i => simp only [step] at hs; split at hs <;> cases hs; simp [storedFor, payloads]
  | sFin => simp only [step] at hs; split at hs <;> cases hs; simp [storedFor, payloads]

theorem payloads_cons (id : Nat) (e : Ev) (es : List Ev) : payloads id (e :: es) = payloads id [e] ++ payloads id es := by
  cases e <;> simp [payloads]
  split <;> simp

theorem storedFor_run : ∀ (es : List Ev) (s s' : St), run s es = some s' → ∀ id,
    storedFor id s' = storedFor id s ++ payloads id es
  | [], s, s', h, id => by simp [run] at h; subst h; simp [payloads]
  | e :: es, s, s', h, id => by
    simp only [run] at h
    cases hs : step s e with
    | none => rw [hs] at h; cases h
    | some s1 =>
      rw [hs] at h
      rw [storedFor_run es s1 s' h id, storedFor_step hs id, payloads_cons id e es, List.append_assoc]

/-! ## admission of a packet script (C03) -/

inductive Pkt
  | stat (s : StatE)
  | endStats
  | data (id : Nat) (empty : Bool)
  | fin
  | err
deriving Repr

/-- Hardlinks.HandleChange (kind add) -/
def hardlinkStep (seen : List Path) (s : StatE) : Option (List Path) :=
  if s.isDir || s.isSymlink then some seen
  else if s.linkname ≠ [] then (if seen.contains s.linkname then some seen else none)
  else some (s.path :: seen)

inductive Admit
  | allOk
  | offender (i : Nat) (why : String)
deriving Repr

/-- index of the first packet that must make Receive fail. `requestable`: ids for which a content
request may legitimately be outstanding (DATA for any other id is an offence). -/
def admissionFrom (requestable : Nat → Bool) : List VFrame → List Path → Nat → Nat → List Pkt → Admit
  | _, _, _, _, [] => .allOk
  | vst, seen, nstat, i, p :: ps =>
    match p with
    | .stat s =>
      match vstep Fix.f1 vst false s.path s.isDir with
      | .ok vst' =>
        match hardlinkStep seen s with
        | some seen' => admissionFrom requestable vst' seen' (nstat+1) (i+1) ps
        | none => .offender i "hard link to a path not sent earlier"
      | .reject => .offender i "path not clean/contained, out of order, or parent missing"
      | .panic => .offender i "validator panic"
    | .endStats => admissionFrom requestable vst seen nstat (i+1) ps
    | .data id _ => if requestable id then admissionFrom requestable vst seen nstat (i+1) ps else .offender i "DATA for an id that was not requested"
    | .fin => admissionFrom requestable vst seen nstat (i+1) ps
    | .err => .offender i "ERR packet"

def admission (requestable : Nat → Bool) (ps : List Pkt) : Admit := admissionFrom requestable [] [] 0 0 ps

end Fsm.R
