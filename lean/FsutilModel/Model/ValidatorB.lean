import FsutilModel.Model.PathFn
/-! Byte-level transcription of validator.go `Validator.HandleChange` (executable model).
`fixed = false` is the code as it stood at the pinned commit (accepts "." and ".."). -/
namespace Fsm

structure VFrame where
  dir : Path
  last : Path
deriving Repr, DecidableEq

/-- sort.Search, verbatim (binary search; `fuel` bounds the loop, n+1 suffices) -/
def goSearchLoop (f : Nat → Bool) : Nat → Nat → Nat → Nat
  | 0, i, _ => i
  | fuel+1, i, j =>
    if i < j then
      let h := (i + j) / 2
      if !f h then goSearchLoop f fuel (h+1) j else goSearchLoop f fuel i h
    else i

def goSearch (n : Nat) (f : Nat → Bool) : Nat := goSearchLoop f (n+1) 0 n

inductive VRes
  | ok (st : List VFrame)
  | reject
  | panic
deriving Repr

/-- Go string `>=` -/
def strGe (a b : Path) : Bool := !(strLt a b)

def dotdotSlash : Path := [46, 46, 47]

/-- HandleChange; `st` is `parentDirs`, bottom first. `isDel` = kind is ChangeKindDelete -/
def vstep (fixed : Bool) (st0 : List VFrame) (isDel : Bool) (p : Path) (isDir : Bool) : VRes :=
  let st := if st0 = [] then [⟨[], []⟩] else st0
  if p ≠ clean p then .reject else
  if isAbs p then .reject else
  if fixed && (p = [dot] || p = dd) then .reject else
  let dir0 := dirB p
  let base := baseB p
  let dir := if dir0 = [dot] then [] else dir0
  if dir = dd || hasPrefixB dotdotSlash p then .reject else
  let n := st.length
  let k := goSearch n (fun i => decide (comparePath ((st.getD (n-1-i) ⟨[], []⟩).dir) dir ≤ 0))
  if k ≥ n then .panic else
  let i := n - 1 - k
  let st1 := if i ≠ n - 1 then st.take (i+1) else st
  match st1.getLast? with
  | none => .panic
  | some top =>
    if dir ≠ top.dir || strGe top.last base then .reject else
    let st2 := st1.dropLast ++ [{ top with last := base }]
    if !isDel && isDir then .ok (st2 ++ [⟨joinB [dir, base], []⟩]) else .ok st2

structure Chg where
  isDel : Bool
  path : Path
  isDir : Bool
deriving Repr

inductive RunRes
  | accept
  | rejectAt (i : Nat)
  | panicAt (i : Nat)
deriving Repr, DecidableEq

def vrunFrom (fixed : Bool) : List VFrame → Nat → List Chg → RunRes
  | _, _, [] => .accept
  | st, i, c :: cs =>
    match vstep fixed st c.isDel c.path c.isDir with
    | .ok st' => vrunFrom fixed st' (i+1) cs
    | .reject => .rejectAt i
    | .panic => .panicAt i

def vrun (fixed : Bool) (cs : List Chg) : RunRes := vrunFrom fixed [] 0 cs

/-! ## Reference specification (the property's own words) -/

/-- clean relative path strictly inside the root -/
def cleanRelB (p : Path) : Bool :=
  p = clean p && !isAbs p && p ≠ [dot] && p ≠ dd && !hasPrefixB dotdotSlash p

/-- element `x` is acceptable after the accepted prefix `pre` (oldest first) -/
def specOk (pre : List Chg) (x : Chg) : Bool :=
  cleanRelB x.path &&
  (match pre.getLast? with
   | none => true
   | some l => decide (comparePath l.path x.path < 0)) &&
  (parentOf x.path = [] ||
   pre.any (fun y => y.path = parentOf x.path && y.isDir && !y.isDel))

def specRunFrom : List Chg → Nat → List Chg → RunRes
  | _, _, [] => .accept
  | pre, i, c :: cs => if specOk pre c then specRunFrom (pre ++ [c]) (i+1) cs else .rejectAt i

def specRun (cs : List Chg) : RunRes := specRunFrom [] 0 cs

end Fsm
