import FsutilModel.Model.DiffB
/-! Wire codec of `types.Stat` / `types.Packet` (generated vtproto code, transcribed) and the
length-prefixed framing of util/protostream.go. Every buffer read goes through `get?` and every slice expression through `sliceC`; an
out-of-range read or slice is the distinguished outcome `panic` (never totalised away). -/
namespace Fsm.W

abbrev Bytes := Array Nat

inductive Err
  | overflow | eof | invalidLength | wrongWireType | illegalTag | endGroup | unexpectedEndGroup | illegalWireType
  | panic
deriving Repr, DecidableEq

def two64 : Nat := 18446744073709551616
def two63 : Nat := 9223372036854775808
def two32 : Nat := 4294967296

/-- Go `int(x)` for a uint64 value -/
def toInt64 (n : Nat) : Int := let m := n % two64; if m < two63 then m else (m : Int) - two64
def ofInt64 (x : Int) : Nat := (x % (two64 : Int)).toNat
/-- Go `int32(x)` -/
def toInt32 (n : Nat) : Int := let m := n % two32; if m < 2147483648 then m else (m : Int) - two32

/-- the varint loop of the generated code: `shift >= 64 → overflow`, `iNdEx >= l → eof`; value is the OR of
`(b & 0x7f) << shift` in 64-bit arithmetic -/
def readVarLoop (d : Bytes) (l : Nat) : Nat → Nat → Nat → Nat → Except Err (Nat × Nat)
  | 0, _, _, _ => .error .overflow
  | fuel+1, i, shift, acc =>
    if shift ≥ 64 then .error .overflow else
    if i ≥ l then .error .eof else
    match d[i]? with
    | none => .error .panic
    | some b =>
      let acc' := (acc ||| (((b &&& 127) <<< shift) % two64))
      if b < 128 then .ok (acc', i+1) else readVarLoop d l fuel (i+1) (shift+7) acc'

/-- returns (value as uint64, new index) -/
def readVar (d : Bytes) (l i : Nat) : Except Err (Nat × Nat) := readVarLoop d l 11 i 0 0

/-- protohelpers.Skip on the slice d[start:] — returns the number of bytes to skip -/
def skipLoop (d : Bytes) (l start : Nat) : Nat → Nat → Nat → Except Err Nat
  | 0, _, _ => .error .eof
  | fuel+1, i, depth =>
    if i ≥ l then .error .eof else   -- "for iNdEx < l" falls through to ErrUnexpectedEOF
    match readVar d l i with
    | .error e => .error e
    | .ok (wire, i1) =>
      let wt := wire % 8
      let next : Except Err (Nat × Nat) :=
        if wt = 0 then
          -- varint: bytes until one < 0x80 (same bounds)
          match readVar d l i1 with
          | .ok (_, i2) => .ok (i2, depth)
          | .error e => .error e
        else if wt = 1 then .ok (i1 + 8, depth)
        else if wt = 2 then
          match readVar d l i1 with
          | .ok (len, i2) =>
            let n := toInt64 len
            if n < 0 then .error .invalidLength else .ok (i2 + n.toNat, depth)
          | .error e => .error e
        else if wt = 3 then .ok (i1, depth + 1)
        else if wt = 4 then (if depth = 0 then .error .unexpectedEndGroup else .ok (i1, depth - 1))
        else if wt = 5 then .ok (i1 + 4, depth)
        else .error .illegalWireType
      match next with
      | .error e => .error e
      | .ok (i2, depth') =>
        if depth' = 0 then .ok (i2 - start) else skipLoop d l start fuel i2 depth'

def skip (d : Bytes) (l start : Nat) : Except Err Nat := skipLoop d l start (l - start + 2) start 0

structure PStat where
  path : List Nat := []
  mode : Nat := 0
  uid : Nat := 0
  gid : Nat := 0
  size : Int := 0
  mtime : Int := 0
  linkname : List Nat := []
  devmajor : Int := 0
  devminor : Int := 0
  xattrs : List (List Nat × List Nat) := []    -- map, insertion order; later key overwrites
  unknown : List Nat := []
deriving Repr, DecidableEq

def slice (d : Bytes) (a b : Nat) : List Nat := (d.extract a b).toList

/-- Go's `dAtA[a:b]`: a slice expression outside `0 ≤ a ≤ b ≤ len` panics -/
def sliceC (d : Bytes) (a b : Nat) : Except Err (List Nat) :=
  if a ≤ b ∧ b ≤ d.size then .ok (slice d a b) else .error .panic

def mapSet (m : List (List Nat × List Nat)) (k v : List Nat) : List (List Nat × List Nat) :=
  if m.any (·.1 = k) then m.map (fun kv => if kv.1 = k then (k, v) else kv) else m ++ [(k, v)]

/-- a length-delimited field: returns (start, end) of the payload -/
def readLen (d : Bytes) (l i : Nat) : Except Err (Nat × Nat) := do
  let (len, i1) ← readVar d l i
  let n := toInt64 len
  if n < 0 then throw .invalidLength
  let post := i1 + n.toNat
  if post ≥ two63 then throw .invalidLength
  if post > l then throw .eof
  return (i1, post)

/-- the map-entry loop of field 10 -/
def xattrEntryLoop (d : Bytes) (l post : Nat) : Nat → Nat → List Nat → List Nat → Except Err (List Nat × List Nat)
  | 0, _, k, v => .ok (k, v)
  | fuel+1, i, k, v =>
    if i ≥ post then .ok (k, v) else do
    let (wire, i1) ← readVar d l i
    let fieldNum := toInt32 (wire / 8)
    if fieldNum = 1 then
      let (a, b) ← readLen d l i1
      let ks ← sliceC d a b
      xattrEntryLoop d l post fuel b ks v
    else if fieldNum = 2 then
      let (a, b) ← readLen d l i1
      let vs ← sliceC d a b
      xattrEntryLoop d l post fuel b k vs
    else
      let sk ← skip d l i
      if i + sk > post then throw .eof
      xattrEntryLoop d l post fuel (i + sk) k v

/-- a varint field of the generated decoder: wire type check, value, continuation index -/
def varintFieldG {M : Type} (d : Bytes) (l i1 wt : Nat) (k : Nat → M) : Except Err (Nat × M) := do
  if wt ≠ 0 then throw .wrongWireType
  let (v, i2) ← readVar d l i1
  return (i2, k v)

/-- a length-delimited field: wire type check, length, bounds checks, payload copied out -/
def bytesFieldG {M : Type} (d : Bytes) (l i1 wt : Nat) (k : List Nat → M) : Except Err (Nat × M) := do
  if wt ≠ 2 then throw .wrongWireType
  let (a, b) ← readLen d l i1
  let s ← sliceC d a b
  return (b, k s)

/-- the `default:` arm: skip the field and keep its bytes as unknown -/
def unknownFieldG {M : Type} (d : Bytes) (l pre : Nat) (k : List Nat → M) : Except Err (Nat × M) := do
  let sk ← skip d l pre
  if pre + sk > l then throw .eof
  let u ← sliceC d pre (pre + sk)
  pure (pre + sk, k u)

/-- field 10 of Stat: one map entry -/
def xattrField (d : Bytes) (l i1 wt : Nat) (m : PStat) : Except Err (Nat × PStat) := do
  if wt ≠ 2 then throw .wrongWireType
  let (a, post) ← readLen d l i1
  let (k, v) ← xattrEntryLoop d l post (post - a + 2) a [] []
  pure (post, { m with xattrs := mapSet m.xattrs k v })

/-- one iteration of `(*Stat).UnmarshalVT` after the tag has been read: dispatch on the field number -/
def statField (d : Bytes) (l pre i1 wire : Nat) (m : PStat) : Except Err (Nat × PStat) :=
  let fieldNum := toInt32 (wire / 8)
  let wt := wire % 8
  if wt = 4 then throw .endGroup
  else if fieldNum ≤ 0 then throw .illegalTag
  else if fieldNum = 1 then bytesFieldG d l i1 wt fun s => { m with path := s }
  else if fieldNum = 2 then varintFieldG d l i1 wt fun v => { m with mode := v % two32 }
  else if fieldNum = 3 then varintFieldG d l i1 wt fun v => { m with uid := v % two32 }
  else if fieldNum = 4 then varintFieldG d l i1 wt fun v => { m with gid := v % two32 }
  else if fieldNum = 5 then varintFieldG d l i1 wt fun v => { m with size := toInt64 v }
  else if fieldNum = 6 then varintFieldG d l i1 wt fun v => { m with mtime := toInt64 v }
  else if fieldNum = 7 then bytesFieldG d l i1 wt fun s => { m with linkname := s }
  else if fieldNum = 8 then varintFieldG d l i1 wt fun v => { m with devmajor := toInt64 v }
  else if fieldNum = 9 then varintFieldG d l i1 wt fun v => { m with devminor := toInt64 v }
  else if fieldNum = 10 then xattrField d l i1 wt m
  else unknownFieldG d l pre fun u => { m with unknown := m.unknown ++ u }

def unmarshalStatLoop (d : Bytes) (l : Nat) : Nat → Nat → PStat → Except Err PStat
  | 0, _, m => .ok m
  | fuel+1, i, m =>
    if i ≥ l then .ok m else do
    let (wire, i1) ← readVar d l i
    let (i', m') ← statField d l i i1 wire m
    unmarshalStatLoop d l fuel i' m'

def unmarshalStat (bs : List Nat) : Except Err PStat :=
  let d := bs.toArray
  unmarshalStatLoop d d.size (d.size + 1) 0 {}

/-! ### encoder -/

def encVarLoop : Nat → Nat → List Nat
  | 0, _ => []
  | fuel+1, n => if n < 128 then [n] else (n % 128 + 128) :: encVarLoop fuel (n / 128)

def encVar (n : Nat) : List Nat := encVarLoop 11 (n % two64)

def encBytesField (tag : Nat) (b : List Nat) : List Nat :=
  if b.isEmpty then [] else tag :: encVar b.length ++ b
def encVarField (tag : Nat) (v : Nat) : List Nat :=
  if v = 0 then [] else tag :: encVar v

def encXattr (kv : List Nat × List Nat) : List Nat :=
  let body := (10 :: encVar kv.1.length ++ kv.1) ++ (18 :: encVar kv.2.length ++ kv.2)
  82 :: encVar body.length ++ body

def marshalStat (s : PStat) : List Nat :=
  encBytesField 10 s.path ++ encVarField 16 s.mode ++ encVarField 24 s.uid ++ encVarField 32 s.gid ++
  encVarField 40 (ofInt64 s.size) ++ encVarField 48 (ofInt64 s.mtime) ++ encBytesField 58 s.linkname ++
  encVarField 64 (ofInt64 s.devmajor) ++ encVarField 72 (ofInt64 s.devminor) ++
  s.xattrs.flatMap encXattr ++ s.unknown

structure PPacket where
  type : Int := 0
  stat : Option PStat := none
  id : Nat := 0
  data : Option (List Nat) := none      -- none = nil slice
  unknown : List Nat := []
deriving Repr, DecidableEq

def marshalPacket (p : PPacket) : List Nat :=
  encVarField 8 (ofInt64 p.type) ++
  (match p.stat with | some s => let b := marshalStat s; 18 :: encVar b.length ++ b | none => []) ++
  encVarField 24 p.id ++ encBytesField 34 (p.data.getD []) ++ p.unknown

/-- field 2 of Packet: the nested Stat message, decoded from a copy of its bytes into the existing (or a fresh) Stat -/
def nestedStatField (d : Bytes) (l i1 wt : Nat) (m : PPacket) : Except Err (Nat × PPacket) := do
  if wt ≠ 2 then throw .wrongWireType
  let (a, b) ← readLen d l i1
  let subl ← sliceC d a b
  let sub := subl.toArray
  let st ← unmarshalStatLoop sub sub.size (sub.size + 1) 0 (m.stat.getD {})
  pure (b, { m with stat := some st })

/-- one iteration of `(*Packet).UnmarshalVT` after the tag has been read -/
def packetField (d : Bytes) (l pre i1 wire : Nat) (m : PPacket) : Except Err (Nat × PPacket) :=
  let fieldNum := toInt32 (wire / 8)
  let wt := wire % 8
  if wt = 4 then throw .endGroup
  else if fieldNum ≤ 0 then throw .illegalTag
  else if fieldNum = 1 then varintFieldG d l i1 wt fun v => { m with type := toInt32 v }
  else if fieldNum = 2 then nestedStatField d l i1 wt m
  else if fieldNum = 3 then varintFieldG d l i1 wt fun v => { m with id := v % two32 }
  else if fieldNum = 4 then bytesFieldG d l i1 wt fun dt => { m with data := some dt }
  else unknownFieldG d l pre fun u => { m with unknown := m.unknown ++ u }

def unmarshalPacketLoop (d : Bytes) (l : Nat) : Nat → Nat → PPacket → Except Err PPacket
  | 0, _, m => .ok m
  | fuel+1, i, m =>
    if i ≥ l then .ok m else do
    let (wire, i1) ← readVar d l i
    let (i', m') ← packetField d l i i1 wire m
    unmarshalPacketLoop d l fuel i' m'

def unmarshalPacket (bs : List Nat) : Except Err PPacket :=
  let d := bs.toArray
  unmarshalPacketLoop d d.size (d.size + 1) 0 {}

/-! ### framing (util/protostream.go) -/

def be32 (n : Nat) : List Nat := [(n / 16777216) % 256, (n / 65536) % 256, (n / 256) % 256, n % 256]
def ofBe32 : List Nat → Nat
  | [a, b, c, d] => a * 16777216 + b * 65536 + c * 256 + d
  | _ => 0

def frame (msg : List Nat) : List Nat := be32 msg.length ++ msg
def sendAll (msgs : List (List Nat)) : List Nat := msgs.flatMap frame

/-- read all frames from a byte stream (what a sequence of RecvMsg calls sees, whatever the
fragmentation: `io.ReadFull` hides it); `none` = truncated stream -/
def recvAll : Nat → List Nat → Option (List (List Nat))
  | 0, _ => some []
  | fuel+1, bs =>
    if bs.isEmpty then some [] else
    if bs.length < 4 then none else
    let n := ofBe32 (bs.take 4)
    let rest := bs.drop 4
    if rest.length < n then none else
    match recvAll fuel (rest.drop n) with
    | some more => some (rest.take n :: more)
    | none => none

end Fsm.W
