import FsutilModel.Model.Pattern
import FsutilModel.Model.DiffB
/-! `FollowLinks` (followlinks.go), transcribed over a flat listing, `dedupePaths`, and the reference
resolver of C18 ("as if the tree root were /"). -/
namespace Fsm.FL
open P

structure Ent where
  path : Path
  isDir : Bool
  link : Option Path      -- symlink target
deriving Repr

def findE (l : List Ent) (p : Path) : Option Ent := l.find? (·.path = p)

/-- statFile: `none` = not found / root -/
def statFile (l : List Ent) (p : Path) : Option Ent :=
  let r := clean p
  if r = [47] ∨ r = [dot] then none else findE l r

/-- width in bytes of the first UTF-8 sequence of `s` as Go decodes it (an invalid byte has width 1) -/
def firstWidth : List Nat → Nat
  | [] => 0
  | b :: rest =>
    let cont (x : Nat) := 128 ≤ x ∧ x < 192
    if b < 128 then 1
    else if 194 ≤ b ∧ b < 224 then (match rest with | c1 :: _ => if cont c1 then 2 else 1 | [] => 1)
    else if 224 ≤ b ∧ b < 240 then
      (match rest with
       | c1 :: c2 :: _ =>
         let lo := if b = 224 then 160 else 128
         let hi := if b = 237 then 159 else 191
         if lo ≤ c1 ∧ c1 ≤ hi ∧ cont c2 then 3 else 1
       | _ => 1)
    else if 240 ≤ b ∧ b < 245 then
      (match rest with
       | c1 :: c2 :: c3 :: _ =>
         let lo := if b = 240 then 144 else 128
         let hi := if b = 244 then 143 else 191
         if lo ≤ c1 ∧ c1 ≤ hi ∧ cont c2 ∧ cont c3 then 4 else 1
       | _ => 1)
    else 1

/-- tokens of a filepath.Match pattern: literal BYTES, `?` and classes consume one rune, `*` any bytes but the separator -/
def fnTokens : Nat → List Nat → List Tok → Option (List Tok)
  | 0, _, acc => some acc.reverse
  | _, [], acc => some acc.reverse
  | fuel+1, ch :: rest, acc =>
    if ch = 42 then fnTokens fuel rest (Tok.starNoSep :: acc)
    else if ch = 63 then fnTokens fuel rest (Tok.anyNoSep :: acc)
    else if ch = 92 then (match rest with | c :: r => fnTokens fuel r (Tok.lit c :: acc) | [] => none)
    else if ch = 91 then
      let (neg, body) := match rest with | 94 :: r => (true, r) | _ => (false, rest)
      match parseClass (body.length + 1) body neg [] with
      | some (n, rs, rest1) => fnTokens fuel rest1 (Tok.cls n rs :: acc)
      | none => none
    else fnTokens fuel rest (Tok.lit ch :: acc)

/-- match of the token list against the BYTES of the name -/
def fnRun : Nat → List Tok → List Nat → Bool
  | 0, _, _ => false
  | _, [], s => s.isEmpty
  | fuel+1, t :: ts, s =>
    match t with
    | .lit c => (match s with | x :: r => x = c && fnRun fuel ts r | [] => false)
    | .anyNoSep | .cls _ _ =>
      (match s with
       | [] => false
       | x :: _ =>
         let w := firstWidth s
         let rune := (runes (s.take w)).headD 65533
         let okc := match t with | .cls n rs => clsMatch n rs rune | _ => true
         x ≠ 47 && okc && fnRun fuel ts (s.drop w))
    | .starNoSep =>
      fnRun fuel ts s || (match s with | x :: r => x ≠ 47 && fnRun fuel (t :: ts) r | [] => false)
    | _ => false

def fnMatch (pat name : Path) : Bool :=
  match fnTokens (pat.length + 1) pat [] with
  | some toks => fnRun ((name.length + 2) * (toks.length + 2) * 4 + 16) toks name
  | none => false

/-- containsWildcards -/
def containsWildcards : List Nat → Bool
  | [] => false
  | 92 :: _ :: rest => containsWildcards rest
  | 92 :: [] => false
  | c :: rest => c = 42 || c = 63 || c = 91 || containsWildcards rest

def childrenOfDir (l : List Ent) (d : Path) : Option (List Ent) :=
  -- readDir: the directory must exist (or be the root)
  let r := clean d
  let isRoot := r = [47] ∨ r = [dot]
  if isRoot then some (l.filter fun e => parentOf e.path = [])
  else match findE l r with
    | some e => if e.isDir then some (l.filter fun x => parentOf x.path = r) else none
    | none => none

def symTarget (p : Path) (e : Ent) : Option (List Path) :=
  match e.link with
  | none => none
  | some ln =>
    let link := clean ln
    if isAbs link then some [link] else some [joinB [[47], joinB [dirB p, link]]]

/-- readSymlink -/
def readSymlink (l : List Ent) (p : Path) (allowWildcard : Bool) : Option (List Path) :=
  let base := baseB p
  if allowWildcard && containsWildcards base then
    match childrenOfDir l (dirB p) with
    | none => none
    | some kids =>
      let outs := kids.filterMap fun f =>
        if fnMatch base (baseB f.path) then
          (match statFile l (joinB [dirB p, baseB f.path]) with
           | some e => symTarget (joinB [dirB p, baseB f.path]) e
           | none => none)
        else none
      let flat := outs.flatten
      if flat.isEmpty then none else some flat
  else
    match statFile l p with
    | some e => symTarget p e
    | none => none

/-- split at the first separator -/
def splitFirst (p : Path) : Path × Path :=
  let rec go : List Nat → List Nat → Path × Path
    | acc, [] => (acc.reverse, [])
    | acc, c :: rest => if c = 47 then (acc.reverse, rest) else go (c :: acc) rest
  go [] p

/-- symlinkResolver.append; `fuel` bounds the recursion (the `resolved` set is the real variant) -/
def appendLoop (l : List Ent) : Nat → List Path → Path → Path → List Path
  | 0, resolved, _, _ => resolved
  | fuel+1, resolved, current0, p =>
    let (first, rest) := splitFirst p
    let current := joinB [current0, first]
    let targets := readSymlink l current true
    let p' := rest
    if (p' = [] ∨ targets.isSome) ∧ resolved.contains current then resolved
    else match targets with
      | some ts =>
        ts.foldl (fun res t => appendLoop l fuel res [dot] (joinB [[dot], joinB [t, p']])) (current :: resolved)
      | none =>
        if p' = [] then current :: resolved
        else appendLoop l fuel resolved current p'

/-- variant of `append` whose memo is keyed by (link, remainder) instead of the link alone (isolates F19: with the memo
keyed by the link only, a second traversal of a link - by a later request or by the same one - returns before the final
location is recorded) -/
def appendLoopK (l : List Ent) : Nat → List (Path × Path) × List Path → Path → Path → List (Path × Path) × List Path
  | 0, acc, _, _ => acc
  | fuel+1, (memo, resolved), current0, p =>
    let (first, rest) := splitFirst p
    let current := joinB [current0, first]
    let targets := readSymlink l current true
    let p' := rest
    if (p' = [] ∨ targets.isSome) ∧ memo.contains (current, p') then (memo, resolved)
    else match targets with
      | some ts =>
        ts.foldl (fun acc t => appendLoopK l fuel acc [dot] (joinB [[dot], joinB [t, p']])) ((current, p') :: memo, current :: resolved)
      | none =>
        if p' = [] then ((current, p') :: memo, current :: resolved)
        else appendLoopK l fuel (memo, resolved) current p'

/-- variant of `append` that treats the components contributed by a LINK TARGET literally (isolates F32: `append` hands every
component to `readSymlink` with `allowWildcard = true`, so a name with `*`, `?` or `[` that is reached through a link target is
matched as a pattern against its directory and the link behind it is not followed). `lit` = number of leading components of
`p` that came from a link target; `keyed` = memo keyed by (link, remainder) as in `appendLoopK`. -/
def appendLoopG (l : List Ent) (keyed : Bool) : Nat → List (Path × Path) × List Path → Path → Path → Nat → List (Path × Path) × List Path
  | 0, acc, _, _, _ => acc
  | fuel+1, (memo, resolved), current0, p, lit =>
    let (first, rest) := splitFirst p
    let current := joinB [current0, first]
    let targets := readSymlink l current (lit = 0)
    let p' := rest
    let key := if keyed then (current, p') else (current, [])
    if (p' = [] ∨ targets.isSome) ∧ memo.contains key then (memo, resolved)
    else match targets with
      | some ts =>
        ts.foldl (fun acc t =>
          let np := joinB [[dot], joinB [t, p']]
          let tl := ((comps (joinB [[dot], t])).filter (fun c => c ≠ [] ∧ c ≠ [dot])).length
          appendLoopG l keyed fuel acc [dot] np tl) (key :: memo, current :: resolved)
      | none =>
        if p' = [] then (key :: memo, current :: resolved)
        else appendLoopG l keyed fuel (memo, resolved) current p' (lit - 1)

def lexLtBytes (a b : Path) : Bool := strLt a b

def insertSortedB (x : Path) : List Path → List Path
  | [] => [x]
  | y :: ys => if lexLtBytes x y then x :: y :: ys else if x = y then y :: ys else y :: insertSortedB x ys

def sortBytes (l : List Path) : List Path := l.foldl (fun acc x => insertSortedB x acc) []

/-- dedupePaths; `fixed` = compare with every kept element, not only the previous one (F4) -/
def dedupePaths (fixed : Bool) (l : List Path) : Option (List Path) :=
  let rec go : List Path → Path → List Path → Option (List Path)
    | [], _, out => some out.reverse
    | s :: rest, last, out =>
      if s = [dot] then none
      else if fixed then
        (if out.any fun o => (o ++ [47]).isPrefixOf s then go rest last out else go rest s (s :: out))
      else if (last ++ [47]).isPrefixOf s then go rest last out
      else go rest s (s :: out)
  go l [] []

/-- the request as `append` first normalises it (`fixed18`: clamped at the root) -/
def normReq (fixed18 : Bool) (p : Path) : Path :=
  if fixed18 then joinB [[dot], joinB [[47], p]] else joinB [[dot], p]

def followLinks (fixed : Bool) (l : List Ent) (paths : List Path) (fuel : Nat) : Option (List Path) :=
  let resolved := paths.foldl (fun res p => appendLoop l fuel res [dot] (normReq Fix.f18 p)) []
  dedupePaths fixed (sortBytes resolved)

/-- variant: every request resolved with a fresh memo (isolates the cross-request effect of the memo, F19) -/
def followLinksSeparately (fixed : Bool) (l : List Ent) (paths : List Path) (fuel : Nat) : Option (List Path) :=
  let resolved := paths.flatMap fun p => appendLoop l fuel [] [dot] (normReq Fix.f18 p)
  dedupePaths fixed (sortBytes resolved)

/-- variant: memo keyed by (link, remainder) -/
def followLinksKeyed (fixed : Bool) (l : List Ent) (paths : List Path) (fuel : Nat) : Option (List Path) :=
  let r := paths.foldl (fun acc p => appendLoopK l fuel acc [dot] (normReq Fix.f18 p)) ([], [])
  dedupePaths fixed (sortBytes r.2)

/-- variants with literal link-target components (F32), memo shared / fresh per request / keyed -/
def followLinksLit (fixed : Bool) (l : List Ent) (paths : List Path) (fuel : Nat) (keyed sep : Bool) : Option (List Path) :=
  let resolved :=
    if sep then paths.flatMap fun p => (appendLoopG l keyed fuel ([], []) [dot] (normReq Fix.f18 p) 0).2
    else (paths.foldl (fun acc p => appendLoopG l keyed fuel acc [dot] (normReq Fix.f18 p) 0) ([], [])).2
  dedupePaths fixed (sortBytes resolved)

/-- is there a symlink whose resolution text (its directory joined with its target) has a component with a metacharacter? -/
def metaLink (l : List Ent) : Bool :=
  l.any fun e => match symTarget e.path e with
    | some ts => ts.any fun t => (comps t).any containsWildcards
    | none => false

/-- has the (cleaned) request a wildcard in a component that is not the last one? -/
def middleWildcard (p : Path) : Bool :=
  let cs := (comps (clean (([47] : Path) ++ p))).filter (· ≠ [])
  (cs.dropLast).any containsWildcards

/-! ## reference resolver -/

/-- resolve `p` from the root following symlinks chroot-style; returns (links traversed, final location or none when the
resolution does not end). `final = some []` means the root. A link may legitimately be crossed several times with different
remainders (`c/c` with `c -> /`); the resolution is cyclic exactly when a (link, remainder) state recurs, and unbounded
growth of the remainder (`l -> l/x`) is given up after 255 crossings (or runs out of fuel): both give `none`. -/
def resolveLoop (l : List Ent) : Nat → List (Path × List Path) → List Path → List Path → List Path → List Path × Option (List Path)
  | 0, _, seen, _, _ => (seen, none)
  | _, _, seen, cur, [] => (seen, some cur)
  | fuel+1, st, seen, cur, c :: rest =>
    if c = [] ∨ c = [dot] then resolveLoop l fuel st seen cur rest
    else if c = dd then resolveLoop l fuel st seen cur.dropLast rest
    else
      let next := cur ++ [c]
      match findE l (joinSep next) with
      | some e =>
        match e.link with
        | some ln =>
          -- (more than 255 link crossings: given up, as the kernel (40) and continuity's RootPath (255) do; a remainder that
          -- grows with every crossing - `l -> l/x` - otherwise makes the states ever longer)
          if st.contains (joinSep next, rest) || decide (255 ≤ st.length) then (seen, none)
          else
            let tcs := comps ln
            let seen' := if seen.contains (joinSep next) then seen else joinSep next :: seen
            if isAbs ln then resolveLoop l fuel ((joinSep next, rest) :: st) seen' [] (tcs ++ rest)
            else resolveLoop l fuel ((joinSep next, rest) :: st) seen' cur (tcs ++ rest)
        | none => resolveLoop l fuel st seen next rest
      | none => resolveLoop l fuel st seen next rest

/-- links traversed and the final location (as a path relative to the root; `some []` = the root itself) -/
def resolve (l : List Ent) (p : Path) : List Path × Option Path :=
  let r := resolveLoop l (4 * (l.length + 2) * (p.length + 4) + 64) [] [] [] (comps p)
  (r.1, r.2.map joinSep)

/-- does result element `r` (possibly a wildcard pattern, matched component by component) name `x` or an ancestor of `x`? -/
def coversOne (r x : Path) : Bool :=
  r = x || (r ++ [47]).isPrefixOf x ||
  (containsWildcards r &&
    let rc := comps r
    let xc := comps x
    rc.length ≤ xc.length && (List.zip rc xc).all fun (a, b) => a = b || fnMatch a b)

def covered (result : List Path) (x : Path) : Bool := result.any (coversOne · x)

/-- expansions of a request whose components may contain wildcards: a wildcard component is matched against the names in
the directory that the textual prefix DENOTES (links in the prefix are crossed first); the expansion stays a textual path -/
def expandReq (l : List Ent) : Nat → Path → List Path → List Path
  | 0, cur, _ => [cur]
  | _, cur, [] => [cur]
  | fuel+1, cur, c :: rest =>
    if containsWildcards c then
      match (resolve l cur).2 with
      | none => []
      | some dir =>
        let kids := l.filter fun e => e.path ≠ [] && parentOf e.path = dir
        (kids.filter fun k => fnMatch c (baseB k.path)).flatMap fun k =>
          expandReq l fuel (if cur = [] then baseB k.path else cur ++ [47] ++ baseB k.path) rest
    else expandReq l fuel (if cur = [] then c else cur ++ [47] ++ c) rest

structure SpecV where
  ok : Bool
  why : String

def specFollow (l : List Ent) (paths : List Path) (result : Option (List Path)) : SpecV := Id.run do
  let res := result.getD []
  -- sorted, no element inside another
  let rec sorted : List Path → Bool
    | a :: b :: r => lexLtBytes a b && sorted (b :: r)
    | _ => true
  if !sorted res then return ⟨false, "result not sorted"⟩
  for a in res do
    for b in res do
      if (a ++ [47]).isPrefixOf b then return ⟨false, "an element of the result is inside another"⟩
  let reqsOf (p : Path) : List Path :=
    let pc := clean (([47] : Path) ++ p)      -- as if the tree root were '/'
    let cs := (comps pc).filter (· ≠ [])
    if cs.any containsWildcards then expandReq l (cs.length + 1) [] cs else [joinSep cs]
  let all := paths.flatMap reqsOf
  let rootReached := all.any fun q => (resolve l q).2 = some []
  if rootReached then
    if !res.isEmpty then return ⟨false, "the root is reached but the result is not empty"⟩
    return ⟨true, ""⟩
  for q in all do
    let (links, fin) := resolve l q
    for k in links do
      if !covered res k then return ⟨false, "a traversed symlink is not covered by the result"⟩
    match fin with
    | some f =>
      if !covered res f then return ⟨false, "the final location is not covered by the result"⟩
    | none => pure ()
  return ⟨true, ""⟩

end Fsm.FL
