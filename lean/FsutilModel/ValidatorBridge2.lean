import FsutilModel.ValidatorBridge1
import FsutilModel.ValidatorMain3
import FsutilModel.Order
/-! Bridge, part 2: `sort.Search` over the validator's stack finds the frame `popTo` finds. -/
namespace Fsm

/-- `sort.Search` (verbatim loop): for a monotone predicate the result is the least index where it holds -/
theorem goSearchLoop_spec (f : Nat → Bool) (n : Nat) (hmono : ∀ a b, a ≤ b → b < n → f a = true → f b = true) :
    ∀ fuel i j, j - i < fuel → i ≤ j → j ≤ n →
      (∀ a, a < i → f a = false) → (∀ a, j ≤ a → a < n → f a = true) →
      (∀ a, a < goSearchLoop f fuel i j → f a = false) ∧
      (∀ a, goSearchLoop f fuel i j ≤ a → a < n → f a = true) ∧ goSearchLoop f fuel i j ≤ n := by
  intro fuel
  induction fuel with
  | zero => intro i j h; omega
  | succ fuel ih =>
    intro i j hfuel hij hjn hlo hhi
    unfold goSearchLoop
    by_cases hlt : i < j
    · simp only [hlt, if_true]
      have hh : (i + j) / 2 < j := by omega
      have hh2 : i ≤ (i + j) / 2 := by omega
      by_cases hf : f ((i + j) / 2) = true
      · simp only [hf, Bool.not_true, Bool.false_eq_true, if_false]
        apply ih i ((i + j) / 2) (by omega) hh2 (by omega) hlo
        intro a ha han
        exact hmono _ a ha han hf
      · have hf' : f ((i + j) / 2) = false := by simpa using hf
        simp only [hf', Bool.not_false, if_true]
        apply ih ((i + j) / 2 + 1) j (by omega) (by omega) hjn _ hhi
        intro a ha
        cases hfa : f a with
        | false => rfl
        | true =>
          have := hmono a ((i + j) / 2) (by omega) (by omega) hfa
          rw [hf'] at this; cases this
    · simp only [hlt, if_false]
      have : i = j := by omega
      subst this
      exact ⟨hlo, hhi, hjn⟩

theorem goSearch_spec (f : Nat → Bool) (n : Nat) (hmono : ∀ a b, a ≤ b → b < n → f a = true → f b = true) :
    (∀ a, a < goSearch n f → f a = false) ∧ (∀ a, goSearch n f ≤ a → a < n → f a = true) ∧ goSearch n f ≤ n := by
  unfold goSearch
  exact goSearchLoop_spec f n hmono (n + 1) 0 n (by omega) (by omega) (by omega) (by intro a h; omega) (by intro a h1 h2; omega)

/-- `popTo` drops exactly the frames before the first one whose directory is ≤ the target -/
theorem popTo_eq_drop (d : List Path) : ∀ (st : List Frame) (k : Nat), k < st.length →
    (∀ a, a < k → compsLeB ((st.getD a ⟨[], []⟩).dir) d = false) →
    compsLeB ((st.getD k ⟨[], []⟩).dir) d = true →
    popTo d st = st.drop k := by
  intro st
  induction st with
  | nil => intro k h; simp at h
  | cons f fs ih =>
    intro k hk hlo hk1
    cases k with
    | zero =>
      simp only [List.getD_cons_zero] at hk1
      simp [popTo, hk1]
    | succ k =>
      have h0 := hlo 0 (by omega)
      simp only [List.getD_cons_zero] at h0
      simp only [popTo, h0, Bool.false_eq_true, if_false, List.drop_succ_cons]
      apply ih k (by simpa using hk)
      · intro a ha
        have := hlo (a + 1) (by omega)
        simpa using this
      · simpa using hk1

theorem comparePath_eq_zero (p q : Path) : comparePath p q = 0 ↔ p = q := by
  induction p generalizing q with
  | nil =>
    cases q with
    | nil => simp [comparePath]
    | cons b q => simp [comparePath]; omega
  | cons a p ih =>
    cases q with
    | nil => simp [comparePath]; omega
    | cons b q =>
      simp only [comparePath]
      by_cases hab : a = b
      · simp [hab, ih]
      · simp only [hab, if_false]
        split <;> simp [hab]

theorem comparePath_nil_le (q : Path) : comparePath [] q ≤ 0 := by
  cases q with
  | nil => simp [comparePath]
  | cons b q => simp [comparePath]; omega

theorem comparePath_cons_nil_pos (a : Nat) (p : Path) : ¬ comparePath (a :: p) [] ≤ 0 := by
  simp [comparePath]

end Fsm
