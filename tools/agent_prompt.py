#!/usr/bin/env python3
"""print the prompt given to a fresh sub-agent for seeding a breaking change (property text only)"""
import json,sys
pid=sys.argv[1]
suffix=sys.argv[2] if len(sys.argv)>2 else ""
import os,glob
prior=[]
if suffix:
    for d in sorted(glob.glob('/verif/seeded/%s-*'%pid)):
        try:
            t=[l for l in open(d+'/NOTES.md').read().splitlines() if l.strip()][0].lstrip('# ').strip()
            prior.append(t)
        except Exception: pass
for l in open('/verif/properties.jsonl'):
    p=json.loads(l)
    if p['id']==pid: break
print(f"""You are helping to evaluate a verification effort by writing a realistic BUG into a Go library.

The library is tonistiigi/fsutil (Go library for incremental directory-tree sync over a STAT/REQ/DATA/FIN packet protocol, with pattern-filtered filesystem walking, tree diffing, and cp -a style copy). You have your own scratch git worktree of it at /tmp/wt/{pid}{suffix} (work ONLY there and in /tmp/seedout/{pid}{suffix}; never touch /repo or /verif, and do not read anything under /verif).

The sandbox has no network. In every shell call first run:
  export GOFLAGS=-mod=mod GOPROXY=off GOSUMDB=off GOTOOLCHAIN=local
The existing test-suite is run with:  cd /tmp/wt/{pid}{suffix} && go test -vet=off -count=1 ./...   (takes a few seconds; you are root, all tests pass on the unchanged tree).

Here is a semantic property that the library is supposed to satisfy:

  Title: {p['title']}
  Statement: {p['statement']}
  It must hold: {p['quantifier']['text']}
  Files involved (hint): {', '.join(p['anchors']['files'])}

YOUR TASK: make a small source change to the library (non-test .go files only, in /tmp/wt/{pid}{suffix}) that BREAKS this property, such that
  (a) the library still compiles and the ENTIRE existing test suite still passes unedited (run it, several times if the change is timing related), and
  (b) the breakage needs something SPECIFIC to manifest - a particular interleaving, a crash or fault at a particular point, a multi-step sequence of operations, an unusual input (e.g. particular byte values in names, sizes at a boundary, a particular combination of entry types or options), or two cooperating sites that each look fine alone. It must NOT be something ordinary use would expose at once (e.g. not 'every transfer fails').  It should look like a plausible mistake or "optimisation" a maintainer could make, not sabotage. Keep it small (a few lines to ~30 lines).
  (c) write a DEMONSTRATION: a Go test file (e.g. zz_seed_test.go in the right package dir of the worktree, using only the library's public or package-internal API and the already vendored/cached dependencies such as testify) or a small Go program, that FAILS with your change applied and PASSES on the unchanged code. Verify both directions yourself (use `git diff > /tmp/seedout/{pid}{suffix}/patch.diff; git checkout -- <files>; ...; git apply /tmp/seedout/{pid}{suffix}/patch.diff`; NEVER use `git stash`: the stash is shared with other worktrees).

Deliver into /tmp/seedout/{pid}{suffix}/ :
  patch.diff   - output of `git diff` for the non-test source change only (must apply with `git apply` to a clean checkout of the same commit)
  demo_test.go (or demo/main.go) - the demonstration, plus in NOTES.md the exact directory it must be placed in and the exact command to run it
  NOTES.md     - what the change is, why the existing tests do not notice, exactly what is needed for it to manifest, which clause of the property it breaks, and the commands you ran with their outcomes (suite with the change: pass; demo with change: fail; demo without change: pass).
Leave the worktree with your source change applied and the demo file present. Produce exactly ONE change (the best you found). Finish with a 5-line summary.""")
if prior:
    print("\nChanges ALREADY written by others for this property (titles only) - yours must use a DIFFERENT mechanism, preferably in a different function or breaking a different clause of the statement:")
    for t in prior: print("  - "+t)

