#!/bin/bash
# confirm a seeded change in its scratch worktree: suite passes with change, demo fails with change, demo passes without
# usage: confirm_seed.sh C01
id=$1
wt=/tmp/wt/$id
out=/tmp/seedout/$id
export GOFLAGS=-mod=mod GOPROXY=off GOSUMDB=off GOTOOLCHAIN=local
cd $wt || exit 2
git checkout -q -- . ; git clean -fdq
git apply $out/patch.diff || { echo "$id: patch does not apply"; exit 2; }
# 1 suite with change (no demo)
go build ./... || { echo "$id: does not build"; exit 2; }
s1=$(go test -vet=off -count=1 ./... 2>&1 | grep -c "^FAIL")
# locate demo destination from agent's worktree copy name: search NOTES for zz_seed_test.go path
demo=$(ls $out/demo_test.go 2>/dev/null)
dest=$(grep -o "[a-z/]*zz_seed_test.go" $out/NOTES.md | grep -v "^/" | head -1)
[ -z "$dest" ] && dest=$(grep -o "/tmp/wt/$id/[a-z/]*zz_seed_test.go" $out/NOTES.md | head -1 | sed "s#/tmp/wt/$id/##")
[ -z "$dest" ] && dest=zz_seed_test.go
cp $demo $wt/$dest
pkg=./$(dirname $dest)
d1=$(go test -vet=off -count=1 -run 'TestSeed' $pkg 2>&1 | grep -c "^FAIL\|^--- FAIL")
git apply -R $out/patch.diff
d2=$(go test -vet=off -count=1 -run 'TestSeed' $pkg 2>&1 | grep -c "^FAIL\|^--- FAIL")
okrun=$(go test -vet=off -count=1 -run 'TestSeed' -v $pkg 2>&1 | grep -c "^--- PASS")
rm -f $wt/$dest
echo "$id: dest=$dest suite_with_change_failures=$s1 demo_with_change_failures=$d1 demo_without_change_failures=$d2 demo_without_change_passes=$okrun"
