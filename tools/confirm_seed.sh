#!/bin/bash
# confirm a seeded change in its scratch worktree: suite passes with change, demo fails with change, demo passes without
# usage: confirm_seed.sh C01 [suffix]      (worktree /tmp/wt/C01<suffix>, output /tmp/seedout/C01<suffix>)
id=$1
wt=/tmp/wt/$id$2
out=/tmp/seedout/$id$2
export GOFLAGS=-mod=mod GOPROXY=off GOSUMDB=off GOTOOLCHAIN=local
cd $wt || exit 2
# where did the agent leave its demo? (untracked *_test.go in the worktree)
dest=$(git status --porcelain | grep '^??' | awk '{print $2}' | grep '_test.go$' | head -1)
[ -z "$dest" ] && dest=zz_seed_test.go
git checkout -q -- . ; git clean -fdq
git apply $out/patch.diff || { echo "$id$2: patch does not apply"; exit 2; }
go build ./... || { echo "$id$2: does not build"; exit 2; }
s1=$(go test -vet=off -count=1 ./... 2>&1 | grep -c "^FAIL")
cp $out/demo_test.go $wt/$dest
pkg=./$(dirname $dest)
d1=$(go test $SEED_DEMO_FLAGS -vet=off -count=1 -run 'Seed' $pkg 2>&1 | grep -c "^FAIL\|^--- FAIL")
git apply -R $out/patch.diff
d2=$(go test $SEED_DEMO_FLAGS -vet=off -count=1 -run 'Seed' $pkg 2>&1 | grep -c "^FAIL\|^--- FAIL")
okrun=$(go test $SEED_DEMO_FLAGS -vet=off -count=1 -run 'Seed' -v $pkg 2>&1 | grep -c "^--- PASS")
rm -f $wt/$dest
echo "$id$2: dest=$dest suite_with_change_failures=$s1 demo_with_change_failures=$d1 demo_without_change_failures=$d2 demo_without_change_passes=$okrun"
