#!/bin/bash
# confirm a finished seed in its worktree, store it under seeded/<id>-<suffix>/, run the property's quick check on it in SEED_REPO
# usage: tools/store_seed.sh C16 f
id=$1; suf=$2
cd "$(dirname "$0")/.."
line=$(tools/confirm_seed.sh $id $suf 2>&1 | tail -1)
echo "$line"
echo "$line" | grep -q "suite_with_change_failures=0 demo_with_change_failures=[1-9][0-9]* demo_without_change_failures=0 demo_without_change_passes=[1-9]" || { echo "NOT CONFIRMED: $id$suf"; exit 3; }
dest=$(echo "$line" | sed 's/.*dest=\([^ ]*\) .*/\1/')
d=seeded/$id-$suf
mkdir -p $d
cp /tmp/seedout/$id$suf/patch.diff /tmp/seedout/$id$suf/demo_test.go /tmp/seedout/$id$suf/NOTES.md $d/ 2>/dev/null
base=$(git -C /repo log --format=%h -1)
python3 - "$id" "$suf" "$dest" "$base" <<'PY'
import json,sys,os
id,suf,dest,base=sys.argv[1:5]
m={"id":"%s-%s"%(id,suf),"property":id,
 "origin":"fresh sub-agent (batch %s) given only the property text, the titles of the earlier seeded changes for the property (to force a different mechanism) and a scratch worktree"%suf,
 "base_commit":"%s (repository HEAD incl. all fix: commits so far)"%base,
 "demo_destination":dest,"demo_cmd":"go test -vet=off -count=1 -run Seed ./%s"%os.path.dirname(dest),
 "confirmed":{"how":"tools/confirm_seed.sh <id> %s in a scratch worktree under /tmp/wt (removed afterwards)"%suf,"suite_with_change":"pass","demo_with_change":"fail","demo_without_change":"pass"},
 "needs_to_manifest":"see NOTES.md (written by the sub-agent)","detected_by":None}
json.dump(m,open("seeded/%s-%s/meta.json"%(id,suf),"w"),indent=1)
PY
VERIF_NOMIN=1 SEED_REPO=${SEED_REPO:-/tmp/seedrepo} python3 tools/run_seeded.py $id-$suf 2>&1 | grep -v "^\[" | cut -c1-400
