#!/usr/bin/env python3
"""debug helper: run a suite's generated cases, print the first k failing with details
usage: tools/dbg.py <module.Class> [n] [seed]"""
import sys, os, json, random, importlib
sys.path.insert(0, os.path.dirname(os.path.dirname(os.path.abspath(__file__))))
from lib import core
mod, cls = sys.argv[1].rsplit(".", 1)
S = getattr(importlib.import_module("lib.suites." + mod), cls)()
n = int(sys.argv[2]) if len(sys.argv) > 2 else 3
seed = int(sys.argv[3]) if len(sys.argv) > 3 else 1
vh = core.build_harness()
core.lake_build(["fsdriver"])
rng = random.Random("dbg/%d" % seed)
ops = list(S.gen(rng, "quick"))
impl = S.run_impl(vh, S.prepare_impl(ops))
model = S.run_model(S.prepare_model(ops, impl))
shown = 0
from lib.runner import minimise
for o, i, m in zip(ops, impl, model):
    v = S.judge(o, i, m)
    if (not v.agree) or v.spec_ok is False:
        print("=" * 100)
        print("agree", v.agree, "spec_ok", v.spec_ok, "note:", v.note)
        small = minimise(S, vh, o, lambda c, ci, cm: (lambda vv: (vv.agree, vv.spec_ok) == (v.agree, v.spec_ok))(S.judge(c, ci, cm)), budget=400)
        si = S.run_impl(vh, S.prepare_impl([small]))[0]
        sm = S.run_model(S.prepare_model([small], [si]))[0]
        print("MIN OP:", json.dumps(small))
        print("NOTE:", S.judge(small, si, sm).note)
        json.dump({"op": small, "impl": si, "model": sm}, open("/tmp/dbg_%d.json" % shown, "w"), indent=1)
        shown += 1
        if shown >= n:
            break
print("failing shown:", shown)
