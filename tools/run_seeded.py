#!/usr/bin/env python3
"""apply a seeded change to /repo, run the given checks (default: the seed's property), undo it.
usage: tools/run_seeded.py C01-a [C01 C02 ...] [--tier quick]"""
import json, os, subprocess, sys
V = os.path.dirname(os.path.dirname(os.path.abspath(__file__)))
# SEED_REPO: a scratch worktree of /repo (git -C /repo worktree add --detach <dir> HEAD) so that /repo itself stays untouched
REPO = os.environ.get("SEED_REPO", "/repo")
args = [a for a in sys.argv[1:] if not a.startswith("--")]
tier = "quick"
for a in sys.argv[1:]:
    if a.startswith("--tier="):
        tier = a.split("=")[1]
sid = args[0]
checks = args[1:] or [json.load(open(os.path.join(V, "seeded", sid, "meta.json")))["property"]]
patch = os.path.join(V, "seeded", sid, "patch_rebased.diff")
if not os.path.exists(patch):
    patch = os.path.join(V, "seeded", sid, "patch.diff")
st = subprocess.run(["git", "-C", REPO, "status", "--porcelain"], capture_output=True, text=True).stdout.strip()
if st:
    print("repo not clean:", st)
    sys.exit(2)
r = subprocess.run(["git", "-C", REPO, "apply", patch], capture_output=True, text=True)
if r.returncode != 0:
    r = subprocess.run(["git", "-C", REPO, "apply", "--3way", patch], capture_output=True, text=True)
    st2 = subprocess.run(["git", "-C", REPO, "status", "--porcelain"], capture_output=True, text=True).stdout
    if r.returncode != 0 or "UU " in st2:
        print("patch does not apply (needs a rebased patch_rebased.diff):", r.stderr[-300:])
        subprocess.run(["git", "-C", REPO, "reset", "-q", "--hard", "HEAD"])
        sys.exit(2)
res = {}
try:
    for c in checks:
        p = subprocess.run([os.path.join(V, "check"), c, "--tier", tier], capture_output=True, text=True, cwd=V, env=dict(os.environ, VERIF_REPO=REPO))
        lines = [l for l in p.stdout.splitlines() if l.startswith("VIOLATION") or l.startswith("KNOWN-FINDING")]
        res[c] = {"rc": p.returncode, "lines": lines}
        print(sid, c, "rc=%d" % p.returncode, *lines, sep="\n  ")
        if p.returncode not in (0, 1):
            print(p.stderr[-2000:])
finally:
    subprocess.run(["git", "-C", REPO, "reset", "-q", "--hard", "HEAD"])
    subprocess.run(["git", "-C", REPO, "status", "--short"])
    # evidence files were rewritten by runs against a modified tree: restore the committed ones
    subprocess.run(["git", "-C", V, "checkout", "--", "evidence"], capture_output=True)
