#!/usr/bin/env python3
"""run every seeded change against its own property's quick check; record the result in seeded/<id>/meta.json and print a table"""
import json, os, subprocess, sys
V = os.path.dirname(os.path.dirname(os.path.abspath(__file__)))
ids = sys.argv[1:] or sorted(os.listdir(os.path.join(V, "seeded")))
rows = []
for sid in ids:
    mp = os.path.join(V, "seeded", sid, "meta.json")
    meta = json.load(open(mp))
    checks = meta.get("run_checks") or [meta["property"]]
    p = subprocess.run([os.path.join(V, "tools", "run_seeded.py"), sid] + checks, capture_output=True, text=True, cwd=V,
                       env=dict(os.environ, VERIF_NOMIN="1"))
    det = []
    cur = None
    if "patch does not apply" in p.stdout or "repo not clean" in p.stdout or "Traceback" in p.stderr:
        print(sid, "-> ERROR (not run):", (p.stdout + p.stderr)[-200:].replace("\n", " "), flush=True)
        continue
    for line in p.stdout.splitlines():
        line = line.strip()
        if line in checks:
            cur = line
        if line.startswith("rc=") and line not in ("rc=0", "rc=1"):
            print(sid, "-> ERROR (check exited with %s)" % line, flush=True)
        if line.startswith("VIOLATION") and cur:
            det.append(cur + (" (no-failing-input-found)" if line.endswith("no-failing-input-found") else ""))
    if not os.environ.get("MATRIX_NOWRITE"):
        meta["detected_by"] = det
        meta["detection_run"] = "tools/seed_matrix.py: patch applied to a scratch worktree of /repo (SEED_REPO), ./check <id> --tier quick, VERIF_SEED=%s, patch undone" % os.environ.get("VERIF_SEED", "1")
        json.dump(meta, open(mp, "w"), indent=1)
    rows.append((sid, checks, det))
    print(sid, "->", det or "MISSED", flush=True)
