#!/bin/bash
# usage: tools/sweep.sh <tier> <seed> [<seed> ...]   — run every registered check on the unchanged tree; print anything that is not quiet
tier=$1; shift
cd "$(dirname "$0")/.."
./setup >/dev/null 2>&1
for s in "$@"; do
  for c in $(python3 -c "import json;print(' '.join(x['property_id'] for x in json.load(open('MANIFEST.json'))['checks']))"); do
    out=$(VERIF_SEED=$s ./check $c --tier $tier 2>&1); rc=$?
    v=$(echo "$out" | grep -c "^VIOLATION")
    t=$(echo "$out" | grep "^\[check\]" | sed 's/.*exit [0-9]*, //')
    echo "seed=$s $c rc=$rc violations=$v $t"
    if [ $rc -ne 0 ]; then echo "$out" | grep -E "VIOLATION|suite\]" | head -5; cp evidence/replays/$c-*.json /tmp/sweep-$c-$s.json 2>/dev/null; fi
  done
done
echo SWEEP-DONE
