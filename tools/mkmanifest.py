#!/usr/bin/env python3
"""writes MANIFEST.json from lib/manifest_data.py (kept as code so that it stays valid)"""
import json, os, sys
sys.path.insert(0, os.path.dirname(os.path.dirname(os.path.abspath(__file__))))
from lib import manifest_data as md
from lib import props

allp = [json.loads(l)["id"] for l in open(os.path.join(os.path.dirname(__file__), "..", "properties.jsonl"))]
checks = []
for pid in allp:
    if pid in md.CHECKS and pid in props.PROPS:
        c = md.CHECKS[pid]
        checks.append({
            "property_id": pid,
            "quick_cmd": "./check %s --tier quick" % pid,
            "thorough_cmd": "./check %s --tier thorough" % pid,
            "evidence_file": "/verif/evidence/%s.json" % pid,
            "replay_cmd_template": "./check %s --replay {path}" % pid,
            "engine": "lean-model+go-harness",
            "level_claimed": {"category": "proof", "text": c["text"], "design_ref": c.get("design_ref", "DESIGN.md §6 " + pid)},
            "level_note": c["note"],
            "technique": c.get("technique", "Lean 4 theorems about a hand-written executable model + differential correspondence of model and Go code on generated inputs"),
        })
na = [{"property_id": pid, "reason": md.NOT_APPLICABLE.get(pid, "check not built yet in this round (planned: DESIGN.md §6); no claim is made")}
      for pid in allp if not (pid in md.CHECKS and pid in props.PROPS)]
m = {
    "version": 1,
    "setup_cmd": "./setup",
    "hooks": {"guard": "verif", "enable": "go build -tags verif (the harness module replaces github.com/tonistiigi/fsutil by /repo and is rebuilt on every check)",
              "baseline_off_cmd": "cd /repo && GOFLAGS=-mod=mod GOPROXY=off GOSUMDB=off go test -vet=off -count=1 ./...",
              "source_commits": md.HOOK_COMMITS, "add_only": True},
    "engines": [
        {"name": "lean-model", "path": "/verif/lean", "serves_properties": [c["property_id"] for c in checks],
         "kind_free_text": "Lean 4 model (FsutilModel/Model), theorems (FsutilModel/Props/Cxx.lean), compiled JSON-lines driver (fsdriver)"},
        {"name": "go-harness", "path": "/verif/harness", "serves_properties": [c["property_id"] for c in checks],
         "kind_free_text": "Go program calling the real fsutil code in-process on the same ops as the Lean driver"},
    ],
    "checks": checks,
    "not_applicable": na,
    "notes": md.NOTES,
}
json.dump(m, open(os.path.join(os.path.dirname(__file__), "..", "MANIFEST.json"), "w"), indent=1)
print("checks:", [c["property_id"] for c in checks])
