#!/bin/bash
# usage: tools/run_mutant.sh mutants/X.diff C08 [C06 ...]   apply, run checks, undo
p=$1; shift
git -C /repo apply "$(realpath $p)" || { echo "does not apply"; exit 2; }
for c in "$@"; do ./check $c 2>&1 | grep -E "VIOLATION|KNOWN|\[check\]"; done
git -C /repo reset -q --hard HEAD; git -C /verif checkout -- evidence 2>/dev/null
